(* Proofs/CodegenEquiv.v -- the generated code (struct runs + per-field calls, Model/Codegen.v) is
   observationally equivalent to the generic field loops of Model/Unpack.v and Model/Pack.v, whatever the
   four code-generation options of every class are.  Stdlib only, no axioms. *)
From Coq Require Import ZArith List Bool Lia.
From Bisturi Require Import Base.Bytes Kernel.IntCodec Kernel.Align Kernel.BitsK Kernel.DataK Kernel.Frag
  Model.Value Model.Decl Model.Unpack Model.Pack Model.Init Model.Codegen Model.Wf Model.Wf2 Proofs.FragProofs.
From Bisturi Require Import Proofs.IntCodecProofs Proofs.DataProofs Proofs.AlignProofs.
Import ListNotations. Open Scope Z_scope.

(* ------------------------------------------------------------------------------------------ *)
(** * The statements' vocabulary                                                               *)
(* ------------------------------------------------------------------------------------------ *)

(* two class tables with the same declarations, possibly different code-generation options *)
Definition same_decls (ct ct' : ctab) : Prop :=
  Forall2 (fun a b => fst a = fst b /\ cc_conf (snd a) = cc_conf (snd b) /\ cc_fields (snd a) = cc_fields (snd b)) ct ct'.

Definition pres_equiv (a b : pres) : Prop :=
  match a, b with
  | POk v e t, POk v' e' t' => v = v' /\ e = e' /\ t = t'
  | PFail _, PFail _ => True
  | PFuel, PFuel => True
  | _, _ => False
  end.

(* two buffers with the same content *)
Definition feq (a b : frs) : Prop :=
  (forall q, cell (frags a) q = cell (frags b) q) /\ extent (frags a) = extent (frags b) /\ cur a = cur b.
Definition good (a : frs) : Prop := Inv a /\ NonNeg a /\ 0 <= cur a.
Definition qres_equiv (a b : qres) : Prop :=
  match a, b with
  | QOk v fr, QOk v' fr' => v = v' /\ feq fr fr' /\ good fr /\ good fr'
  | QFail _, QFail _ => True
  | QFuel, QFuel => True
  | _, _ => False
  end.

(* ------------------------------------------------------------------------------------------ *)
(** * Class tables                                                                             *)
(* ------------------------------------------------------------------------------------------ *)

Lemma same_decls_refl (ct : ctab) : same_decls ct ct.
Proof. induction ct as [|a r IH]; constructor; [repeat split|exact IH]. Qed.

Lemma same_decls_get (ct ct' : ctab) (c : cid) : same_decls ct ct' ->
  match ct_get ct c, ct_get ct' c with
  | Some k, Some k' => cc_conf k = cc_conf k' /\ cc_fields k = cc_fields k'
  | None, None => True
  | _, _ => False
  end.
Proof.
  intros H. induction H as [|[c1 k1] [c2 k2] r r' (Hc & Hcf & Hfs) _ IH]; cbn [ct_get]; [exact I|].
  cbn [fst snd] in Hc, Hcf, Hfs. subst c2. destruct (c =? c1); [split; assumption|exact IH].
Qed.

Lemma ct_get_in (ct : ctab) (c : cid) (k : cclass) : ct_get ct c = Some k -> exists c', In (c', k) ct.
Proof.
  induction ct as [|[c1 k1] r IH]; cbn [ct_get]; [discriminate|].
  destruct (c =? c1).
  - intros H. injection H as <-. exists c1. left. reflexivity.
  - intros H. destruct (IH H) as [c' Hin]. exists c'. right. exact Hin.
Qed.

Lemma ct_sizes_get (ct : ctab) (c : cid) (k : cclass) :
  ct_sizes_ok ct = true -> ct_get ct c = Some k -> Forall (fun f => cfield_sizes_ok f = true) (cc_fields k).
Proof.
  intros H G. destruct (ct_get_in _ _ _ G) as [c' Hin].
  unfold ct_sizes_ok in H. rewrite forallb_forall in H. specialize (H _ Hin). cbn [snd] in H.
  apply Forall_forall. rewrite forallb_forall in H. exact H.
Qed.

Lemma ct_wf_get (ct : ctab) (c : cid) (k : cclass) :
  ct_wf ct = true -> ct_get ct c = Some k -> Forall (fun f => cfield_wf f = true) (cc_fields k).
Proof.
  intros H G. destruct (ct_get_in _ _ _ G) as [c' Hin].
  unfold ct_wf in H. rewrite forallb_forall in H. specialize (H _ Hin). cbn [snd] in H.
  apply Forall_forall. unfold class_wf in H. rewrite forallb_forall in H. exact H.
Qed.

(* ------------------------------------------------------------------------------------------ *)
(** * Slices of slices                                                                         *)
(* ------------------------------------------------------------------------------------------ *)

Lemma skipn_skipn' {A : Type} (a : nat) : forall (b : nat) (l : list A), skipn a (skipn b l) = skipn (b + a) l.
Proof.
  intros b. induction b as [|b IH]; intros l; [reflexivity|].
  destruct l as [|x l]; cbn [skipn Nat.add]; [destruct a; reflexivity|apply IH].
Qed.

Lemma slice_chunk_tail (raw : bytes) (off n total : Z) : 0 <= off -> 0 <= n ->
  slice_from (slice raw off (off + total)) n = slice raw (off + n) (off + total).
Proof.
  intros Ho Hn. unfold slice_from, slice. rewrite skipn_firstn_comm, skipn_skipn'.
  f_equal; [lia|f_equal; lia].
Qed.

Lemma slice_chunk_head (raw : bytes) (off n total : Z) : 0 <= off -> 0 <= n ->
  n <= blen (slice raw off (off + total)) ->
  slice (slice raw off (off + total)) 0 n = slice raw off (off + n).
Proof. intros Ho Hn Hle. apply slice_slice_prefix; assumption. Qed.

(* ------------------------------------------------------------------------------------------ *)
(** * Fixity and the grouping into blocks                                                      *)
(* ------------------------------------------------------------------------------------------ *)

Lemma fixity_struct_inv (hb : bool) (cf : lconf) (f : cfield) (m : smember) :
  fixity_of hb cf f = FStruct m ->
  (exists i n sg fe d, f = CElem i (ELeafE (LInt n sg fe d)) /\ has_struct_code n = true /\
                       m = SMInt i n sg (is_bigendian (resolve_endianness fe (lc_endianness cf)) hb)) \/
  (exists i n d, f = CElem i (ELeafE (LDataSized (ELit (VInt n)) true d)) /\ m = SMData i n).
Proof.
  intros H. destruct f as [| i e | | | |]; try discriminate H.
  destruct e as [l| |]; try discriminate H.
  destruct l as [n sg fe d|size ic d| | |]; try discriminate H.
  - cbn [fixity_of] in H. destruct (has_struct_code n) eqn:Hc; [|discriminate H].
    injection H as <-. left. exists i, n, sg, fe, d. repeat split. exact Hc.
  - destruct size as [v| | | | | | | | |]; try discriminate H.
    destruct v; try discriminate H. destruct ic; try discriminate H.
    cbn [fixity_of] in H. injection H as <-. right. eexists _, _, _. split; reflexivity.
Qed.

(* a member of a pending or flushed run: the field it stands for, and a non-negative size *)
Definition Rf (hb : bool) (cf : lconf) (f : cfield) (m : smember) : Prop :=
  fixity_of hb cf f = FStruct m /\ 0 <= sm_size m.

Lemma fixity_Rf (hb : bool) (cf : lconf) (f : cfield) (m : smember) :
  cfield_sizes_ok f = true -> fixity_of hb cf f = FStruct m -> Rf hb cf f m.
Proof.
  intros Hs H. split; [exact H|].
  destruct (fixity_struct_inv _ _ _ _ H) as [(i & n & sg & fe & d & -> & Hc & ->)|(i & n & d & -> & ->)];
    cbn [sm_size].
  - apply has_struct_code_spec in Hc. lia.
  - cbn [cfield_sizes_ok] in Hs. lia.
Qed.

Lemma run_size_nonneg (hb : bool) (cf : lconf) (pf : list cfield) (ms : list smember) :
  Forall2 (Rf hb cf) pf ms -> 0 <= run_size ms.
Proof.
  intros H. induction H as [|f m pf ms (_ & Hm) _ IH]; cbn [run_size fold_right]; [lia|].
  fold (run_size ms). lia.
Qed.

(* the induction over gen_blocks, once and for all: to relate the block list to the field list it suffices
   to handle a per-field block and a struct run in front of related remainders *)
Section GenBlocks.
Variable hb : bool.
Variable cf : lconf.
Variable Q : cfield -> Prop.
Variable P : list block -> list cfield -> Prop.
Hypothesis P_nil : P [] [].
Hypothesis P_loop : forall f rest fs, Q f -> P rest fs -> P (BLoop f :: rest) (f :: fs).
Hypothesis P_run : forall b pf ms rest fs, pf <> [] -> Forall Q pf -> Forall2 (fun f m => fixity_of hb cf f = FStruct m) pf ms ->
  P rest fs -> P (BStruct b ms :: rest) (pf ++ fs).

Lemma gen_blocks_rel (vec : bool) : forall fs, Forall Q fs ->
  P (gen_blocks hb cf vec fs None) fs /\
  (forall b ms pf, pf <> [] -> Forall Q pf -> Forall2 (fun f m => fixity_of hb cf f = FStruct m) pf (rev ms) ->
                   P (gen_blocks hb cf vec fs (Some (b, ms))) (pf ++ fs)).
Proof.
  induction fs as [|f r IH]; intros HQ.
  - split; [exact P_nil|]. intros b ms pf Hne HQp HR. cbn [gen_blocks].
    apply P_run; [exact Hne|exact HQp|exact HR|exact P_nil].
  - inversion HQ as [|f0 r0 HQf HQr]; subst f0 r0. destruct (IH HQr) as [IHn IHs].
    assert (Hone : forall m, fixity_of hb cf f = FStruct m ->
                             P (gen_blocks hb cf vec r (Some (sm_big m, [m]))) (f :: r)).
    { intros m Hm. apply (IHs (sm_big m) [m] [f]); [discriminate|constructor; [exact HQf|constructor]|].
      cbn [rev app]. constructor; [exact Hm|constructor]. }
    assert (Hloop : P (BLoop f :: gen_blocks hb cf vec r None) (f :: r)).
    { apply P_loop; [exact HQf|exact IHn]. }
    split.
    + cbn [gen_blocks]. destruct (fixity_of hb cf f) as [m| |] eqn:Hfx;
        [apply Hone; reflexivity|exact Hloop|exact Hloop].
    + intros b ms pf Hne HQp HR. cbn [gen_blocks].
      destruct (fixity_of hb cf f) as [m| |] eqn:Hfx.
      * destruct (vec && Bool.eqb b (sm_big m)).
        -- replace (pf ++ f :: r) with ((pf ++ [f]) ++ r) by (rewrite <- app_assoc; reflexivity).
           apply IHs.
           ++ destruct pf; discriminate.
           ++ apply Forall_app. split; [exact HQp|constructor; [exact HQf|constructor]].
           ++ cbn [rev]. apply Forall2_app; [exact HR|constructor; [exact Hfx|constructor]].
        -- cbn [app]. apply P_run; [exact Hne|exact HQp|exact HR|]. apply Hone. reflexivity.
      * cbn [app]. apply P_run; [exact Hne|exact HQp|exact HR|exact Hloop].
      * cbn [app]. apply P_run; [exact Hne|exact HQp|exact HR|exact Hloop].
Qed.
End GenBlocks.

(* ------------------------------------------------------------------------------------------ *)
(** * pres_equiv is an equivalence                                                             *)
(* ------------------------------------------------------------------------------------------ *)

Lemma pres_equiv_refl (a : pres) : pres_equiv a a.
Proof. destruct a; cbn; auto. Qed.
Lemma pres_equiv_sym (a b : pres) : pres_equiv a b -> pres_equiv b a.
Proof. destruct a, b; cbn; auto. intros (-> & -> & ->). auto. Qed.
Lemma pres_equiv_trans (a b c : pres) : pres_equiv a b -> pres_equiv b c -> pres_equiv a c.
Proof. destruct a, b, c; cbn; auto; try contradiction. intros (-> & -> & ->) (-> & -> & ->). auto. Qed.

Definition pres_nn (a : pres) : Prop := match a with POk _ o _ => 0 <= o | _ => True end.
Lemma pres_nn_equiv (a b : pres) : pres_equiv a b -> pres_nn a -> pres_nn b.
Proof. destruct a, b; cbn; auto; try contradiction. intros (_ & -> & _) H. exact H. Qed.

Definition fres_equiv (a b : fres) : Prop :=
  match a, b with
  | FOk s o t, FOk s' o' t' => s = s' /\ o = o' /\ t = t'
  | FExn _, FExn _ => True
  | FFail _, FFail _ => True
  | FFuel, FFuel => True
  | _, _ => False
  end.
Definition fres_nn (a : fres) : Prop := match a with FOk _ o _ => 0 <= o | _ => True end.
(* equivalent outcomes, and a non-negative end offset *)
Definition fgood (a b : fres) : Prop := fres_equiv a b /\ fres_nn a.

Lemma fgood_refl (a : fres) : fres_nn a -> fgood a a.
Proof. intros H. split; [|exact H]. destruct a; cbn; auto. Qed.

(* ------------------------------------------------------------------------------------------ *)
(** * Offsets stay non-negative                                                                *)
(* ------------------------------------------------------------------------------------------ *)

Lemma seq_align_nn (al off o : Z) : 0 <= off -> seq_align al off = Some o -> 0 <= o.
Proof.
  intros Ho. unfold seq_align, pymod. destruct (Z.eqb_spec al 0) as [E|E]; [discriminate|].
  intros H. injection H as <-.
  destruct (Z_lt_le_dec 0 al) as [Hp|Hn].
  - pose proof (Z.mod_pos_bound (al - off mod al) al Hp). lia.
  - assert (Hal : al < 0) by lia.
    pose proof (Z.mod_neg_bound off al Hal) as Hb. pose proof (Z.div_mod off al E) as Hd.
    destruct (Z.eq_dec (off mod al) 0) as [Z0|NZ].
    + rewrite Z0, Z.sub_0_r, Z.mod_same by exact E. lia.
    + rewrite <- (Z.mod_unique (al - off mod al) al 0 (al - off mod al)); [|right; lia|lia].
      set (q := off / al) in *. set (r := off mod al) in *.
      assert (Hq : q < 0) by nia.
      replace (off + (al - r)) with (al * (q + 1)) by lia. nia.
Qed.

Lemma unpack_leaf_nn (hb : bool) (raw : bytes) (cf : lconf) (c : cid) (name : fname) (l : leaf)
      (s : slots) (off : Z) (v : value) (o' : Z) (t : trace) :
  0 <= off -> unpack_leaf hb raw cf c name l s off = Ok (v, o', t) -> 0 <= o'.
Proof.
  intros Ho H. destruct l as [n sg fe d|size ic d|m incl d|r incl d|d]; cbn [unpack_leaf] in H.
  - destruct (int_unpack n sg _ raw off) as [[x o]|] eqn:E; [|discriminate H].
    injection H as _ <- _. unfold int_unpack in E.
    destruct (decode n sg _ (slice raw off (off + n))) eqn:D; [|discriminate E]. injection E as _ <-.
    unfold decode in D. destruct (Z.eqb_spec (blen (slice raw off (off + n))) n) as [B|B]; [|discriminate D].
    pose proof (blen_nonneg (slice raw off (off + n))). lia.
  - unfold bind in H. destruct (eval_int (mkctx raw s off) size) as [bc|]; [|discriminate H].
    destruct (data_sized raw off bc) as [[x o]|] eqn:E; [|discriminate H]. injection H as _ <- _.
    apply data_sized_ok in E; [|exact Ho]. lia.
  - destruct (data_marker raw off (lc_sbl cf) m incl) as [[x o]|] eqn:E; [|discriminate H].
    injection H as _ <- _. apply data_marker_ok in E; [|exact Ho].
    destruct E as (k & Hf & -> & _). apply find_least in Hf. destruct Hf as ((Hk & _) & _).
    pose proof (blen_nonneg m). lia.
  - destruct (data_regex raw off (lc_sbl cf) r incl) as [[[x o] dl]|] eqn:E; [|discriminate H].
    injection H as _ <- _. apply data_regex_ok in E; [|exact Ho].
    destruct E as (st & en & Hs & -> & _). apply re_search_bounds in Hs. lia.
  - unfold data_eos in H. injection H as _ <- _. pose proof (blen_nonneg raw). lia.
Qed.

(* ------------------------------------------------------------------------------------------ *)
(** * Unpack: the generic loop with two nested parsers                                         *)
(* ------------------------------------------------------------------------------------------ *)

Section UEquiv.
Variable hb : bool.
Variable raw : bytes.
Variables rec1 rec2 : cid -> Z -> pres.
Variable lf : nat.
Hypothesis Hrec : forall c off, 0 <= off -> pres_equiv (rec1 c off) (rec2 c off).
Hypothesis Hnn : forall c off, 0 <= off -> pres_nn (rec1 c off).

Lemma rec_fgood (c' : cid) (s : slots) (name : fname) (off : Z) : 0 <= off ->
  fgood (match rec1 c' off with POk v o' t => FOk (slot_set s name v) o' t | PFail st => FFail st | PFuel => FFuel end)
        (match rec2 c' off with POk v o' t => FOk (slot_set s name v) o' t | PFail st => FFail st | PFuel => FFuel end).
Proof.
  intros Ho. pose proof (Hrec c' off Ho) as He. pose proof (Hnn c' off Ho) as Hn.
  destruct (rec1 c' off), (rec2 c' off); cbn in He, Hn |- *; try contradiction; unfold fgood; cbn; auto.
  destruct He as (-> & -> & ->). auto.
Qed.

Lemma leaf_fgood (cf : lconf) (c : cid) (name : fname) (l : leaf) (s : slots) (off : Z) : 0 <= off ->
  fgood (match unpack_leaf hb raw cf c name l s off with Ok (v, o', t) => FOk (slot_set s name v) o' t | Exn x => FExn x end)
        (match unpack_leaf hb raw cf c name l s off with Ok (v, o', t) => FOk (slot_set s name v) o' t | Exn x => FExn x end).
Proof.
  intros Ho. apply fgood_refl. destruct (unpack_leaf hb raw cf c name l s off) as [[[v o'] t]|x] eqn:E; cbn; [|exact I].
  exact (unpack_leaf_nn _ _ _ _ _ _ _ _ _ _ _ Ho E).
Qed.

Lemma elem_fgood (cf : lconf) (c : cid) (name : fname) (e : elem) (s : slots) (off : Z) : 0 <= off ->
  fgood (unpack_elem hb raw rec1 cf c name e s off) (unpack_elem hb raw rec2 cf c name e s off).
Proof.
  intros Ho. destruct e as [l|c' pr|sel d]; cbn [unpack_elem].
  - apply leaf_fgood. exact Ho.
  - apply rec_fgood. exact Ho.
  - destruct (eval (mkctx raw s off) sel) as [v|x]; [|apply fgood_refl; exact I].
    destruct v; try (apply fgood_refl; exact I).
    + apply rec_fgood. exact Ho.
    + apply rec_fgood. exact Ho.
    + apply leaf_fgood. exact Ho.
Qed.

Lemma count_fgood (cf : lconf) (c : cid) (i : Z) (e : elem) (al : Z) : forall (k : nat) (s : slots) (off : Z) (t : trace),
  0 <= off ->
  fgood (unpack_count hb raw rec1 cf c i e al k s off t) (unpack_count hb raw rec2 cf c i e al k s off t).
Proof.
  induction k as [|k IH]; intros s off t Ho; cbn [unpack_count].
  - apply fgood_refl. exact Ho.
  - destruct (seq_align al off) as [o1|] eqn:Ea; [|apply fgood_refl; exact I].
    pose proof (seq_align_nn _ _ _ Ho Ea) as Ho1.
    pose proof (elem_fgood cf c (FSeqElem i) e s o1 Ho1) as [He Hn].
    destruct (unpack_elem hb raw rec1 cf c (FSeqElem i) e s o1) as [s1 o2 t1| | |],
             (unpack_elem hb raw rec2 cf c (FSeqElem i) e s o1) as [s1' o2' t1'| | |];
      cbn in He, Hn; try contradiction; try (split; cbn; exact I).
    destruct He as (-> & -> & ->). apply IH. exact Hn.
Qed.

Lemma until_fgood (cf : lconf) (c : cid) (i : Z) (e : elem) (al : Z) (u : expr) :
  forall (fuel : nat) (s : slots) (off : Z) (t : trace), 0 <= off ->
  fgood (unpack_until hb raw rec1 fuel cf c i e al u s off t) (unpack_until hb raw rec2 fuel cf c i e al u s off t).
Proof.
  induction fuel as [|fuel IH]; intros s off t Ho; cbn [unpack_until];
    (destruct (eval (mkctx raw s off) u) as [v|x]; [|apply fgood_refl; exact I]);
    (destruct (truth v); [apply fgood_refl; exact Ho|]).
  - apply fgood_refl. exact I.
  - destruct (seq_align al off) as [o1|] eqn:Ea; [|apply fgood_refl; exact I].
    pose proof (seq_align_nn _ _ _ Ho Ea) as Ho1.
    pose proof (elem_fgood cf c (FSeqElem i) e s o1 Ho1) as [He Hn].
    destruct (unpack_elem hb raw rec1 cf c (FSeqElem i) e s o1) as [s1 o2 t1| | |],
             (unpack_elem hb raw rec2 cf c (FSeqElem i) e s o1) as [s1' o2' t1'| | |];
      cbn in He, Hn; try contradiction; try (split; cbn; exact I).
    destruct He as (-> & -> & ->). apply IH. exact Hn.
Qed.

Lemma field_fgood (cf : lconf) (c : cid) (f : cfield) (s : slots) (off ipp : Z) : 0 <= off ->
  fgood (unpack_field hb raw rec1 lf cf c f s off ipp) (unpack_field hb raw rec2 lf cf c f s off ipp).
Proof.
  intros Ho. destruct f as [i arg rf al|i e|i first last run0 shift mask nbytes d|i e cnt unt whn d al|i e whn d|i];
    cbn [unpack_field].
  - apply fgood_refl.
    destruct (match arg with MConst z => Ok z | MField g => _ | MFun e => _ end) as [z|x]; [|exact I].
    destruct (al && (z =? 0)); [exact I|].
    destruct (move_unpack al rf z off ipp) as [o'|] eqn:Em; [|exact I]. cbn. exact (move_nonneg _ _ _ _ _ _ Em).
  - apply elem_fgood. exact Ho.
  - apply fgood_refl.
    destruct (if first then _ else _) as [[[s1 o'] t]|x] eqn:E; [|exact I].
    assert (Ho' : 0 <= o').
    { destruct first.
      - destruct (int_unpack nbytes false true raw off) as [[v o'']|] eqn:Ei; [|discriminate E].
        injection E as _ <- _.
        assert (Hl : unpack_leaf hb raw empty_conf c (FN i) (LInt nbytes false (Some EBig) VNone) s off
                     = Ok (VInt v, o'', [TChunk off (slice raw off o'')])).
        { cbn [unpack_leaf resolve_endianness is_bigendian]. rewrite Ei. reflexivity. }
        exact (unpack_leaf_nn _ _ _ _ _ _ _ _ _ _ _ Ho Hl).
      - injection E as _ <- _. exact Ho. }
    destruct (slot_get s1 (FBitsI run0)) as [[]|]; try exact I. exact Ho'.
  - destruct (match cnt with Some ce => _ | None => Ok 1 end) as [n|x]; [|apply fgood_refl; exact I].
    destruct (match whn with None => Ok false | Some w => _ end) as [[|]|x];
      [apply fgood_refl; exact Ho| |apply fgood_refl; exact I].
    pose proof (count_fgood cf c i e al (Z.to_nat n) (slot_set s (FN i) (VList [])) off [] Ho) as [He Hn].
    destruct (unpack_count hb raw rec1 cf c i e al (Z.to_nat n) (slot_set s (FN i) (VList [])) off []) as [s1 o1 t1| | |],
             (unpack_count hb raw rec2 cf c i e al (Z.to_nat n) (slot_set s (FN i) (VList [])) off []) as [s1' o1' t1'| | |];
      cbn in He, Hn; try contradiction; try (split; cbn; exact I).
    destruct He as (-> & -> & ->). destruct unt as [u|]; [apply until_fgood; exact Hn|apply fgood_refl; exact Hn].
  - destruct (eval (mkctx raw s off) whn) as [v|x]; [|apply fgood_refl; exact I].
    destruct (truth v); [|apply fgood_refl; exact Ho].
    pose proof (elem_fgood cf c (FOptElem i) e s off Ho) as [He Hn].
    destruct (unpack_elem hb raw rec1 cf c (FOptElem i) e s off) as [s1 o2 t1| | |],
             (unpack_elem hb raw rec2 cf c (FOptElem i) e s off) as [s1' o2' t1'| | |];
      cbn in He, Hn; try contradiction; try (split; cbn; exact I).
    destruct He as (-> & -> & ->). split; cbn; auto.
  - apply fgood_refl. exact Ho.
Qed.

Lemma fields_equiv (cf : lconf) (c : cid) (ipp : Z) : forall (fs : list cfield) (s : slots) (off : Z) (t : trace),
  0 <= off ->
  pres_equiv (unpack_fields hb raw rec1 lf cf c fs s off ipp t) (unpack_fields hb raw rec2 lf cf c fs s off ipp t) /\
  pres_nn (unpack_fields hb raw rec1 lf cf c fs s off ipp t).
Proof.
  induction fs as [|f r IH]; intros s off t Ho; cbn [unpack_fields].
  - cbn. auto.
  - pose proof (field_fgood cf c f s off ipp Ho) as [He Hn].
    destruct (unpack_field hb raw rec1 lf cf c f s off ipp) as [s1 o1 t1| | |],
             (unpack_field hb raw rec2 lf cf c f s off ipp) as [s1' o1' t1'| | |];
      cbn in He, Hn; try contradiction; try (split; cbn; exact I).
    destruct He as (-> & -> & ->). apply IH. exact Hn.
Qed.
End UEquiv.

(* ------------------------------------------------------------------------------------------ *)
(** * Unpack: one struct run against its members                                               *)
(* ------------------------------------------------------------------------------------------ *)

Definition mval (m : smember) (b : bytes) : value :=
  match m with
  | SMInt _ n sg big => match decode n sg big b with Some x => VInt x | None => VNone end
  | SMData _ _ => VBytes b
  end.

Lemma struct_unpack_cons (m : smember) (r : list smember) (chunk : bytes) (off : Z) (s : slots) :
  struct_unpack (m :: r) chunk off s =
  let b := slice chunk 0 (sm_size m) in
  let '(s', t) := struct_unpack r (slice_from chunk (sm_size m)) (off + sm_size m) (slot_set s (FN (sm_index m)) (mval m b)) in
  (s', TChunk off b :: t).
Proof. destruct m; reflexivity. Qed.

Section URun.
Variable hb : bool.
Variable raw : bytes.
Variable rec : cid -> Z -> pres.
Variable lf : nat.
Variable cf : lconf.
Variable c : cid.
Variable ipp : Z.

(* the generic code on a struct-able field: succeeds iff exactly sm_size bytes are there *)
Lemma member_unpack (f : cfield) (m : smember) (s : slots) (off : Z) :
  fixity_of hb cf f = FStruct m ->
  let b := slice raw off (off + sm_size m) in
  (blen b = sm_size m ->
   unpack_field hb raw rec lf cf c f s off ipp = FOk (slot_set s (FN (sm_index m)) (mval m b)) (off + sm_size m) [TChunk off b]) /\
  (blen b <> sm_size m -> exists x, unpack_field hb raw rec lf cf c f s off ipp = FExn x).
Proof.
  intros Hfx. destruct (fixity_struct_inv _ _ _ _ Hfx) as [(i & n & sg & fe & d & -> & Hc & ->)|(i & n & d & -> & ->)];
    cbn [sm_size sm_index mval unpack_field unpack_elem unpack_leaf]; cbv zeta.
  - unfold int_unpack. split.
    + intros Hb. unfold decode. rewrite Hb, Z.eqb_refl. reflexivity.
    + intros Hb. rewrite decode_short by exact Hb. eauto.
  - unfold eval_int, bind. cbn [eval as_int]. unfold data_sized, data_next, data_short. split.
    + intros Hb. rewrite Hb, Z.eqb_refl. reflexivity.
    + intros Hb. destruct (Z.eqb_spec (blen (slice raw off (off + n))) n) as [E|E]; [contradiction|].
      cbn [negb]. eauto.
Qed.

Lemma run_unpack_ok (fs : list cfield) : forall (pf : list cfield) (ms : list smember), Forall2 (Rf hb cf) pf ms ->
  forall (s : slots) (off : Z) (t : trace), 0 <= off ->
  blen (slice raw off (off + run_size ms)) = run_size ms ->
  unpack_fields hb raw rec lf cf c (pf ++ fs) s off ipp t =
  let '(s1, t1) := struct_unpack ms (slice raw off (off + run_size ms)) off s in
  unpack_fields hb raw rec lf cf c fs s1 (off + run_size ms) ipp (t ++ t1).
Proof.
  intros pf ms H. induction H as [|f m pf ms (Hfx & Hm) HR IH]; intros s off t Ho Hb.
  - cbn [app struct_unpack run_size fold_right]. rewrite Z.add_0_r, app_nil_r. reflexivity.
  - pose proof (run_size_nonneg _ _ _ _ HR) as Hrs.
    change (run_size (m :: ms)) with (sm_size m + run_size ms) in *.
    rewrite slice_blen in Hb by lia.
    assert (Hbm : blen (slice raw off (off + sm_size m)) = sm_size m) by (rewrite slice_blen by lia; lia).
    cbn [app unpack_fields].
    destruct (member_unpack f m s off Hfx) as [Hok _]. rewrite (Hok Hbm). clear Hok.
    rewrite struct_unpack_cons. cbv zeta.
    rewrite slice_chunk_head by (try rewrite slice_blen; lia).
    rewrite slice_chunk_tail by lia.
    replace (off + (sm_size m + run_size ms)) with (off + sm_size m + run_size ms) by lia.
    rewrite IH by (try rewrite slice_blen; lia).
    destruct (struct_unpack ms _ _ _) as [s1 t1]. rewrite <- app_assoc. reflexivity.
Qed.

Lemma run_unpack_fail (fs : list cfield) : forall (pf : list cfield) (ms : list smember), Forall2 (Rf hb cf) pf ms ->
  forall (s : slots) (off : Z) (t : trace), 0 <= off ->
  blen (slice raw off (off + run_size ms)) <> run_size ms ->
  exists st, unpack_fields hb raw rec lf cf c (pf ++ fs) s off ipp t = PFail st.
Proof.
  intros pf ms H. induction H as [|f m pf ms (Hfx & Hm) HR IH]; intros s off t Ho Hb.
  - exfalso. apply Hb. cbn [run_size fold_right]. rewrite slice_blen by lia. pose proof (blen_nonneg raw). lia.
  - pose proof (run_size_nonneg _ _ _ _ HR) as Hrs.
    change (run_size (m :: ms)) with (sm_size m + run_size ms) in *.
    rewrite slice_blen in Hb by lia.
    cbn [app unpack_fields].
    destruct (member_unpack f m s off Hfx) as [Hok Hko].
    destruct (Z.eq_dec (blen (slice raw off (off + sm_size m))) (sm_size m)) as [E|E].
    + rewrite (Hok E). apply IH; [lia|]. rewrite slice_blen in E |- * by lia. lia.
    + destruct (Hko E) as [x ->]. eauto.
Qed.

(* blocks against fields, same nested parser *)
Definition UP (bs : list block) (fs : list cfield) : Prop :=
  forall s off t, 0 <= off ->
    pres_equiv (unpack_blocks hb raw rec lf cf c bs s off ipp t) (unpack_fields hb raw rec lf cf c fs s off ipp t).

Hypothesis Hnn : forall c off, 0 <= off -> pres_nn (rec c off).

Lemma UP_nil : UP [] [].
Proof. intros s off t _. cbn. auto. Qed.

Lemma UP_loop (f : cfield) (rest : list block) (fs : list cfield) : UP rest fs -> UP (BLoop f :: rest) (f :: fs).
Proof.
  intros H s off t Ho. cbn [unpack_blocks unpack_fields].
  pose proof (field_fgood hb raw rec rec lf (fun c o _ => pres_equiv_refl _) Hnn cf c f s off ipp Ho) as [_ Hn].
  destruct (unpack_field hb raw rec lf cf c f s off ipp) as [s1 o1 t1| | |]; cbn in Hn |- *; auto.
Qed.

Lemma UP_run (b : bool) (pf : list cfield) (ms : list smember) (rest : list block) (fs : list cfield) :
  Forall2 (Rf hb cf) pf ms -> UP rest fs -> UP (BStruct b ms :: rest) (pf ++ fs).
Proof.
  intros HR H s off t Ho. cbn [unpack_blocks]. cbv zeta.
  pose proof (run_size_nonneg _ _ _ _ HR) as Hrs.
  destruct (Z.eqb_spec (blen (slice raw off (off + run_size ms))) (run_size ms)) as [E|E].
  - rewrite (run_unpack_ok fs pf ms HR s off t Ho E).
    destruct (struct_unpack ms _ off s) as [s1 t1]. apply H. lia.
  - destruct (run_unpack_fail fs pf ms HR s off t Ho E) as [st ->]. cbn. exact I.
Qed.

Lemma UP_gen (vec : bool) (fs : list cfield) : Forall (fun f => cfield_sizes_ok f = true) fs ->
  UP (gen_blocks hb cf vec fs None) fs.
Proof.
  intros Hs.
  apply (gen_blocks_rel hb cf (fun f => cfield_sizes_ok f = true) UP UP_nil); [| |exact Hs].
  - intros f rest fs' _. apply UP_loop.
  - intros b pf ms rest fs' _ HQ HR. apply UP_run.
    clear - HQ HR. induction HR as [|f m pf ms Hfx _ IH]; constructor.
    + inversion HQ; subst. apply fixity_Rf; assumption.
    + inversion HQ; subst. apply IH. assumption.
Qed.
End URun.

(* ------------------------------------------------------------------------------------------ *)
(** * Unpack: any two option settings                                                          *)
(* ------------------------------------------------------------------------------------------ *)

(* what a class runs: generated code or the generic loop *)
Definition urun (hb : bool) (raw : bytes) (rec : cid -> Z -> pres) (lf : nat) (gen vec : bool) (cf : lconf) (c : cid)
           (fs : list cfield) (off : Z) : pres :=
  if gen then unpack_blocks hb raw rec lf cf c (gen_blocks hb cf vec fs None) [] off off []
  else unpack_fields hb raw rec lf cf c fs [] off off [].

Lemma urun_generic (hb : bool) (raw : bytes) (rec : cid -> Z -> pres) (lf : nat) (gen vec : bool) (cf : lconf) (c : cid)
      (fs : list cfield) (off : Z) :
  (forall c off, 0 <= off -> pres_nn (rec c off)) -> Forall (fun f => cfield_sizes_ok f = true) fs -> 0 <= off ->
  pres_equiv (urun hb raw rec lf gen vec cf c fs off) (unpack_fields hb raw rec lf cf c fs [] off off []).
Proof.
  intros Hnn Hs Ho. unfold urun. destruct gen; [|apply pres_equiv_refl].
  apply UP_gen; assumption.
Qed.

Lemma urun_equiv (hb : bool) (raw : bytes) (rec1 rec2 : cid -> Z -> pres) (lf : nat) (g1 v1 g2 v2 : bool)
      (cf : lconf) (c : cid) (fs : list cfield) (off : Z) :
  (forall c off, 0 <= off -> pres_equiv (rec1 c off) (rec2 c off)) ->
  (forall c off, 0 <= off -> pres_nn (rec1 c off)) ->
  Forall (fun f => cfield_sizes_ok f = true) fs -> 0 <= off ->
  pres_equiv (urun hb raw rec1 lf g1 v1 cf c fs off) (urun hb raw rec2 lf g2 v2 cf c fs off) /\
  pres_nn (urun hb raw rec1 lf g1 v1 cf c fs off).
Proof.
  intros Hrec Hnn Hs Ho.
  assert (Hnn2 : forall c off, 0 <= off -> pres_nn (rec2 c off)).
  { intros c0 o0 H0. exact (pres_nn_equiv _ _ (Hrec c0 o0 H0) (Hnn c0 o0 H0)). }
  pose proof (urun_generic hb raw rec1 lf g1 v1 cf c fs off Hnn Hs Ho) as E1.
  pose proof (urun_generic hb raw rec2 lf g2 v2 cf c fs off Hnn2 Hs Ho) as E2.
  destruct (fields_equiv hb raw rec1 rec2 lf Hrec Hnn cf c off fs [] off [] Ho) as [E12 N1].
  split.
  - eapply pres_equiv_trans; [exact E1|]. eapply pres_equiv_trans; [exact E12|]. apply pres_equiv_sym. exact E2.
  - exact (pres_nn_equiv _ _ (pres_equiv_sym _ _ E1) N1).
Qed.

Lemma unpack_any_urun (fuel : nat) (hb : bool) (ct : ctab) (raw : bytes) (c : cid) (off : Z) :
  unpack_any (S fuel) hb ct raw c off =
  match ct_get ct c with
  | None => PFuel
  | Some k => urun hb raw (unpack_any fuel hb ct raw) fuel (cc_gen_unpack k) (cc_vectorize k) (cc_conf k) c (cc_fields k) off
  end.
Proof. reflexivity. Qed.

Lemma unpack_codegen_equiv_nn : forall fuel host ct ct' raw c off,
  same_decls ct ct' -> ct_sizes_ok ct = true -> 0 <= off ->
  pres_equiv (unpack_any fuel host ct raw c off) (unpack_any fuel host ct' raw c off) /\
  pres_nn (unpack_any fuel host ct raw c off).
Proof.
  induction fuel as [|fuel IH]; intros host ct ct' raw c off Hsd Hs Ho.
  - cbn. auto.
  - rewrite !unpack_any_urun. pose proof (same_decls_get ct ct' c Hsd) as Hg.
    destruct (ct_get ct c) as [k|] eqn:G, (ct_get ct' c) as [k'|]; try contradiction; [|cbn; auto].
    destruct Hg as (<- & <-).
    apply urun_equiv.
    + intros c0 o0 H0. apply IH; assumption.
    + intros c0 o0 H0. apply (IH host ct ct' raw c0 o0); assumption.
    + exact (ct_sizes_get _ _ _ Hs G).
    + exact Ho.
Qed.

Theorem unpack_codegen_equiv : forall fuel host ct ct' raw c off,
  same_decls ct ct' -> ct_sizes_ok ct = true -> 0 <= off ->
  pres_equiv (unpack_any fuel host ct raw c off) (unpack_any fuel host ct' raw c off).
Proof. intros. apply unpack_codegen_equiv_nn; assumption. Qed.

(* in particular the generated code agrees with the generic field loop of Model/Unpack.v *)
Theorem unpack_any_generic : forall fuel host ct raw c off,
  ct_sizes_ok ct = true -> 0 <= off ->
  pres_equiv (unpack_any fuel host ct raw c off) (unpack_pkt fuel host ct raw c off).
Proof.
  induction fuel as [|fuel IH]; intros host ct raw c off Hs Ho.
  - cbn. auto.
  - rewrite unpack_any_urun. cbn [unpack_pkt]. destruct (ct_get ct c) as [k|] eqn:G; [|cbn; auto].
    change (unpack_fields host raw (unpack_pkt fuel host ct raw) fuel (cc_conf k) c (cc_fields k) [] off off [])
      with (urun host raw (unpack_pkt fuel host ct raw) fuel false false (cc_conf k) c (cc_fields k) off).
    apply urun_equiv.
    + intros c0 o0 H0. apply IH; assumption.
    + intros c0 o0 H0. apply (unpack_codegen_equiv_nn fuel host ct ct raw c0 o0 (same_decls_refl ct) Hs H0).
    + exact (ct_sizes_get _ _ _ Hs G).
    + exact Ho.
Qed.

(* ------------------------------------------------------------------------------------------ *)
(** * Buffers with the same content                                                            *)
(* ------------------------------------------------------------------------------------------ *)

Lemma feq_refl (a : frs) : feq a a.
Proof. repeat split. Qed.
Lemma feq_sym (a b : frs) : feq a b -> feq b a.
Proof. intros (H1 & H2 & H3). repeat split; auto. Qed.
Lemma feq_trans (a b c : frs) : feq a b -> feq b c -> feq a c.
Proof.
  intros (H1 & H2 & H3) (G1 & G2 & G3). split; [|split; congruence]. intros q. rewrite H1. apply G1.
Qed.

Lemma good_empty : good empty.
Proof. destruct inv_empty as [H1 H2]. split; [exact H1|]. split; [exact H2|]. cbn. lia. Qed.

Lemma good_set_cur (fr : frs) (p : Z) : good fr -> 0 <= p -> good (set_cur fr p).
Proof. intros (H1 & H2 & _) Hp. split; [exact H1|]. split; [exact H2|exact Hp]. Qed.
Lemma feq_set_cur (fr fr' : frs) (p : Z) : feq fr fr' -> feq (set_cur fr p) (set_cur fr' p).
Proof. intros (H1 & H2 & _). split; [exact H1|]. split; [exact H2|reflexivity]. Qed.

(* outcomes of an insertion, up to feq *)
Definition res_equiv (a b : Frag.res) : Prop :=
  match a, b with
  | Frag.Ok x, Frag.Ok y => feq x y /\ good x /\ good y
  | Collision, Collision => True
  | _, _ => False
  end.
Lemma res_equiv_trans (a b c : Frag.res) : res_equiv a b -> res_equiv b c -> res_equiv a c.
Proof.
  destruct a, b, c; cbn; auto; try contradiction.
  intros (H1 & H2 & H3) (G1 & G2 & G3). split; [exact (feq_trans _ _ _ H1 G1)|auto].
Qed.

(* insert is determined by the cell function: it fails iff some target byte is occupied *)
Lemma insert_cases (s : frs) (p : Z) (b : bytes) : Inv s ->
  (insert s p b = Collision /\ exists q, p <= q < p + blen b /\ cell (frags s) q <> None) \/
  (exists s', insert s p b = Frag.Ok s' /\
     (forall q, p <= q < p + blen b -> cell (frags s) q = None) /\
     Inv s' /\ cur s' = p + blen b /\
     (forall q, cell (frags s') q =
                if (p <=? q) && (q <? p + blen b) then nth_error b (Z.to_nat (q - p)) else cell (frags s) q) /\
     extent (frags s') = Z.max (extent (frags s)) (p + blen b)).
Proof.
  intros HI. destruct (insert s p b) as [s'| |] eqn:E.
  - right. exists s'. split; [reflexivity|].
    destruct (insert_ok s p b s' HI E) as (HI' & Hc & Hcell & Hext).
    split; [|auto]. intros q Hq. destruct (cell (frags s) q) as [x|] eqn:C; [exfalso|reflexivity].
    destruct b as [|y b]; [rewrite blen_nil in Hq; lia|].
    assert (Hcol : insert s p (y :: b) = Collision).
    { apply insert_collision_iff; [exact HI|discriminate|]. exists q. split; [exact Hq|congruence]. }
    congruence.
  - left. split; [reflexivity|].
    destruct b as [|y b].
    + destruct (insert_empty_ok s p HI) as [s' Hs']. congruence.
    + apply insert_collision_iff in E; [exact E|exact HI|discriminate].
  - exfalso. exact (insert_no_crash s p b HI E).
Qed.

Lemma insert_feq (a b : frs) (p : Z) (x : bytes) : good a -> good b -> feq a b -> 0 <= p ->
  res_equiv (insert a p x) (insert b p x).
Proof.
  intros (Ia & Na & _) (Ib & Nb & _) (Hcell & Hext & _) Hp.
  destruct (insert_cases a p x Ia) as [(Ea & q & Hq & Hocc)|(a' & Ea & Hfree & Ia' & Hcur & Hc & He)];
  destruct (insert_cases b p x Ib) as [(Eb & q' & Hq' & Hocc')|(b' & Eb & Hfree' & Ib' & Hcur' & Hc' & He')];
    rewrite Ea, Eb; cbn.
  - exact I.
  - apply Hocc. rewrite Hcell. apply Hfree'. exact Hq.
  - apply Hocc'. rewrite <- Hcell. apply Hfree. exact Hq'.
  - pose proof (blen_nonneg x) as Hx. split; [|split].
    + split; [|split; [congruence|congruence]]. intros q. rewrite Hc, Hc', Hcell. reflexivity.
    + split; [exact Ia'|]. split; [exact (insert_nonneg a p x a' Na Hp Ea)|lia].
    + split; [exact Ib'|]. split; [exact (insert_nonneg b p x b' Nb Hp Eb)|lia].
Qed.

(* one chunk, or its two halves one after the other *)
Lemma insert_app (a : frs) (p : Z) (x y : bytes) : good a -> 0 <= p ->
  res_equiv (insert a p (x ++ y)) (match insert a p x with Frag.Ok a1 => insert a1 (cur a1) y | e => e end).
Proof.
  intros (Ia & Na & _) Hp. pose proof (blen_nonneg x) as Hx. pose proof (blen_nonneg y) as Hy.
  destruct (insert_cases a p x Ia) as [(Ex & q & Hq & Hocc)|(a1 & Ex & Hfx & I1 & Hcur1 & Hc1 & He1)]; rewrite Ex.
  - destruct (insert_cases a p (x ++ y) Ia) as [(Exy & _)|(a' & Exy & Hfxy & _)]; rewrite Exy; cbn; [exact I|].
    apply Hocc. apply Hfxy. rewrite blen_app. lia.
  - rewrite Hcur1.
    assert (N1 : NonNeg a1) by exact (insert_nonneg a p x a1 Na Hp Ex).
    destruct (insert_cases a1 (p + blen x) y I1) as [(Ey & q & Hq & Hocc)|(a2 & Ey & Hfy & I2 & Hcur2 & Hc2 & He2)];
      rewrite Ey;
      (destruct (insert_cases a p (x ++ y) Ia) as [(Exy & q' & Hq' & Hocc')|(a' & Exy & Hfxy & I' & Hcur' & Hc' & He')];
       rewrite Exy; cbn).
    + exact I.
    + apply Hocc. rewrite Hc1.
      destruct (Z.leb_spec p q); [|lia]. destruct (Z.ltb_spec q (p + blen x)); [lia|]. cbn [andb].
      apply Hfxy. rewrite blen_app. lia.
    + rewrite blen_app in Hq'. apply Hocc'.
      destruct (Z_lt_le_dec q' (p + blen x)) as [L|L]; [apply Hfx; lia|].
      assert (Hn : cell (frags a1) q' = None) by (apply Hfy; lia).
      rewrite Hc1 in Hn. destruct (Z.leb_spec p q'); [|lia]. destruct (Z.ltb_spec q' (p + blen x)); [lia|].
      exact Hn.
    + rewrite blen_app in *. split; [|split].
      * split; [|split; [lia|lia]]. intros q. rewrite Hc', Hc2, Hc1.
        destruct (Z.leb_spec p q) as [L1|L1]; destruct (Z.ltb_spec q (p + (blen x + blen y))) as [L2|L2];
          destruct (Z.leb_spec (p + blen x) q) as [L3|L3]; destruct (Z.ltb_spec q (p + blen x + blen y)) as [L4|L4];
          destruct (Z.ltb_spec q (p + blen x)) as [L5|L5]; cbn [andb]; try lia; try reflexivity.
        -- rewrite nth_error_app2 by (unfold blen in *; lia). f_equal. unfold blen in *. lia.
        -- rewrite nth_error_app1 by (unfold blen in *; lia). reflexivity.
      * split; [exact I'|]. split; [exact (insert_nonneg a p (x ++ y) a' Na Hp Exy)|lia].
      * split; [exact I2|]. split; [apply (insert_nonneg a1 (p + blen x) y a2 N1); [lia|exact Ey]|lia].
Qed.

(* a struct run writes the concatenation at once, the generic loop member by member *)
Lemma extend_concat : forall (bs : list bytes), bs <> [] -> forall (a b : frs), good a -> good b -> feq a b ->
  res_equiv (append a (concat bs)) (extend b bs).
Proof.
  induction bs as [|x r IH]; intros Hne a b Ga Gb Hf; [congruence|].
  assert (Hcur : cur b = cur a) by (symmetry; apply Hf).
  assert (Hp : 0 <= cur a) by apply Ga.
  pose proof (insert_feq a b (cur a) x Ga Gb Hf Hp) as Hx.
  destruct r as [|y r].
  - cbn [concat extend]. rewrite app_nil_r. unfold append. rewrite Hcur.
    destruct (insert a (cur a) x), (insert b (cur a) x); cbn in Hx |- *; auto.
  - change (concat (x :: y :: r)) with (x ++ concat (y :: r)).
    eapply res_equiv_trans; [exact (insert_app a (cur a) x (concat (y :: r)) Ga Hp)|].
    change (extend b (x :: y :: r)) with (match insert b (cur b) x with Frag.Ok s' => extend s' (y :: r) | e => e end).
    rewrite Hcur.
    destruct (insert a (cur a) x) as [a1| |], (insert b (cur a) x) as [b1| |]; cbn in Hx; try contradiction; [|exact I].
    destruct Hx as (Hf1 & Ga1 & Gb1). apply (IH ltac:(discriminate) a1 b1 Ga1 Gb1 Hf1).
Qed.

Lemma list_ext_nth {A : Type} : forall (l1 l2 : list A), length l1 = length l2 ->
  (forall i, (i < length l1)%nat -> nth_error l1 i = nth_error l2 i) -> l1 = l2.
Proof.
  induction l1 as [|x l1 IH]; intros [|y l2] Hl Hn; cbn [length] in Hl; try discriminate; [reflexivity|].
  f_equal.
  - specialize (Hn 0%nat ltac:(cbn [length]; lia)). cbn in Hn. congruence.
  - apply IH; [lia|]. intros i Hi. apply (Hn (S i)). cbn [length]. lia.
Qed.

Theorem feq_tobytes : forall a b, good a -> good b -> feq a b -> tobytes a = tobytes b.
Proof.
  intros a b (Ia & Na & _) (Ib & Nb & _) (Hcell & Hext & _).
  destruct (tobytes_spec a Ia Na) as [La Ha]. destruct (tobytes_spec b Ib Nb) as [Lb Hb].
  apply list_ext_nth.
  - unfold blen in La, Lb. lia.
  - intros i Hi. unfold blen in La.
    assert (Hq : 0 <= Z.of_nat i < extent (frags a)) by lia.
    pose proof (Ha _ Hq) as H1. rewrite Hext in Hq. pose proof (Hb _ Hq) as H2.
    rewrite Nat2Z.id in H1, H2. rewrite H1, H2, Hcell. reflexivity.
Qed.

(* ------------------------------------------------------------------------------------------ *)
(** * Slots                                                                                    *)
(* ------------------------------------------------------------------------------------------ *)

Lemma fname_eqb_eq (a b : fname) : fname_eqb a b = true <-> a = b.
Proof.
  destruct a, b; cbn [fname_eqb]; try (split; discriminate);
    try (rewrite Z.eqb_eq; split; [intros ->; reflexivity|intros H; injection H; auto]).
  rewrite andb_true_iff, !Z.eqb_eq. split; [intros [-> ->]; reflexivity|intros H; injection H; auto].
Qed.
Lemma fname_eqb_refl (a : fname) : fname_eqb a a = true.
Proof. apply fname_eqb_eq. reflexivity. Qed.

Lemma slot_get_set (s : slots) (f g : fname) (v : value) :
  slot_get (slot_set s f v) g = if fname_eqb g f then Some v else slot_get s g.
Proof.
  induction s as [|[h w] r IH]; cbn [slot_set slot_get]; [reflexivity|].
  destruct (fname_eqb f h) eqn:E.
  - apply fname_eqb_eq in E. subst h. cbn [slot_get]. destruct (fname_eqb g f); reflexivity.
  - cbn [slot_get]. destruct (fname_eqb g h) eqn:E2; [|exact IH].
    apply fname_eqb_eq in E2. subst h.
    destruct (fname_eqb g f) eqn:E3; [|reflexivity].
    apply fname_eqb_eq in E3. subst g. rewrite fname_eqb_refl in E. discriminate E.
Qed.

Lemma slot_get_in (s : slots) (f : fname) (v : value) : slot_get s f = Some v -> exists g, In (g, v) s.
Proof.
  induction s as [|[h w] r IH]; cbn [slot_get]; [discriminate|].
  destruct (fname_eqb f h).
  - intros H. injection H as ->. exists h. left. reflexivity.
  - intros H. destruct (IH H) as [g Hg]. exists g. right. exact Hg.
Qed.

(* the declared-field slots are the same *)
Definition fn_same (s s' : slots) : Prop := forall j, slot_get s' (FN j) = slot_get s (FN j).
Lemma fn_same_refl (s : slots) : fn_same s s.
Proof. intros j. reflexivity. Qed.
Lemma fn_same_trans (a b c : slots) : fn_same a b -> fn_same b c -> fn_same a c.
Proof. intros H1 H2 j. rewrite H2. apply H1. Qed.
Lemma fn_same_set (s : slots) (g : fname) (v : value) : (forall j, g <> FN j) -> fn_same s (slot_set s g v).
Proof.
  intros Hg j. rewrite slot_get_set. destruct (fname_eqb (FN j) g) eqn:E; [|reflexivity].
  apply fname_eqb_eq in E. exfalso. exact (Hg j (eq_sym E)).
Qed.

(* ------------------------------------------------------------------------------------------ *)
(** * Pack: the generic loop on two buffers with the same content and two nested packers       *)
(* ------------------------------------------------------------------------------------------ *)

Definition kres_equiv (a b : kres) : Prop :=
  match a, b with
  | KOk s fr, KOk s' fr' => s = s' /\ feq fr fr' /\ good fr /\ good fr'
  | KExn _ _, KExn _ _ => True
  | KFail _, KFail _ => True
  | KFuel, KFuel => True
  | _, _ => False
  end.

Lemma qres_equiv_sym (a b : qres) : qres_equiv a b -> qres_equiv b a.
Proof. destruct a, b; cbn; auto. intros (-> & H & G1 & G2). split; [reflexivity|]. split; [exact (feq_sym _ _ H)|auto]. Qed.
Lemma qres_equiv_trans (a b c : qres) : qres_equiv a b -> qres_equiv b c -> qres_equiv a c.
Proof.
  destruct a, b, c; cbn; auto; try contradiction.
  intros (-> & H & G1 & G2) (-> & H' & G1' & G2'). split; [reflexivity|]. split; [exact (feq_trans _ _ _ H H')|auto].
Qed.

Lemma emit_equiv (s : slots) (fr fr' : frs) (b : bytes) : good fr -> good fr' -> feq fr fr' ->
  kres_equiv (emit s fr b) (emit s fr' b).
Proof.
  intros G G' F. unfold emit, append.
  assert (Hc : cur fr' = cur fr) by (symmetry; apply F). rewrite Hc.
  pose proof (insert_feq fr fr' (cur fr) b G G' F ltac:(apply G)) as H.
  destruct (insert fr (cur fr) b), (insert fr' (cur fr) b); cbn in H |- *; auto; contradiction.
Qed.

Lemma emit_slots (s : slots) (fr : frs) (b : bytes) (s1 : slots) (fr1 : frs) : emit s fr b = KOk s1 fr1 -> s1 = s.
Proof. unfold emit. destruct (append fr b); intros H; try discriminate H. injection H; auto. Qed.

Lemma pack_leaf_equiv (hb : bool) (dl : dstate) (cf : lconf) (c : cid) (name : fname) (l : leaf) (s : slots) (fr fr' : frs) :
  good fr -> good fr' -> feq fr fr' ->
  kres_equiv (pack_leaf hb dl cf c name l s fr) (pack_leaf hb dl cf c name l s fr').
Proof.
  intros G G' F. unfold pack_leaf. destruct (slot_get s name) as [v|]; [|exact I].
  destruct l as [n sg fe d|size ic d|m incl d|r incl d|d].
  - destruct (as_int v) as [z|]; [|exact I]. destruct (encode n sg _ z) as [b|]; [|exact I]. apply emit_equiv; assumption.
  - destruct v; try exact I. apply emit_equiv; assumption.
  - destruct v; try exact I. apply emit_equiv; assumption.
  - destruct v; try exact I. apply emit_equiv; assumption.
  - destruct v; try exact I. apply emit_equiv; assumption.
Qed.

Lemma pack_leaf_slots (hb : bool) (dl : dstate) (cf : lconf) (c : cid) (name : fname) (l : leaf) (s : slots) (fr : frs)
      (s1 : slots) (fr1 : frs) : pack_leaf hb dl cf c name l s fr = KOk s1 fr1 -> s1 = s.
Proof.
  unfold pack_leaf. destruct (slot_get s name) as [v|]; [|discriminate].
  destruct l as [n sg fe d|size ic d|m incl d|r incl d|d].
  - destruct (as_int v) as [z|]; [|discriminate]. destruct (encode n sg _ z) as [b|]; [|discriminate]. apply emit_slots.
  - destruct v; try discriminate. apply emit_slots.
  - destruct v; try discriminate. apply emit_slots.
  - destruct v; try discriminate. apply emit_slots.
  - destruct v; try discriminate. apply emit_slots.
Qed.

(* no element ever changes the slots *)
Lemma pack_elem_slots (hb : bool) (dl : dstate) (rec : cid -> slots -> frs -> qres) (cf : lconf) (c : cid) (name : fname)
      (e : elem) (s : slots) (fr : frs) (s1 : slots) (fr1 : frs) :
  pack_elem hb dl rec cf c name e s fr = KOk s1 fr1 -> s1 = s.
Proof.
  destruct e as [l|c' pr|sel d]; cbn [pack_elem].
  - apply pack_leaf_slots.
  - destruct (slot_get s name) as [[]|]; try discriminate.
    destruct (rec _ _ fr); intros H; try discriminate H. injection H; auto.
  - destruct (slot_get s name) as [v|]; [|discriminate].
    destruct v; try (destruct (eval (pctx s) sel) as [[]|]; try discriminate; apply pack_leaf_slots).
    destruct (rec _ _ fr); intros H; try discriminate H. injection H; auto.
Qed.

Section PEquiv.
Variable hb : bool.
Variable dl : dstate.
Variables rec1 rec2 : cid -> slots -> frs -> qres.
Variable LV : value -> Prop.
Hypothesis LV_list : forall l v, LV (VList l) -> In v l -> LV v.
Hypothesis Hrec : forall c ps fr fr', LV (VPkt c ps) -> good fr -> good fr' -> feq fr fr' ->
  qres_equiv (rec1 c ps fr) (rec2 c ps fr').

Lemma rec_kequiv (s : slots) (c' : cid) (ps : slots) (fr fr' : frs) :
  LV (VPkt c' ps) -> good fr -> good fr' -> feq fr fr' ->
  kres_equiv (match rec1 c' ps fr with QOk _ fr1 => KOk s fr1 | QFail st => KFail st | QFuel => KFuel end)
             (match rec2 c' ps fr' with QOk _ fr1 => KOk s fr1 | QFail st => KFail st | QFuel => KFuel end).
Proof.
  intros HL G G' F. pose proof (Hrec c' ps fr fr' HL G G' F) as H.
  destruct (rec1 c' ps fr), (rec2 c' ps fr'); cbn in H |- *; auto; try contradiction.
  destruct H as (_ & H). split; [reflexivity|exact H].
Qed.

Lemma elem_kequiv (cf : lconf) (c : cid) (name : fname) (e : elem) (s : slots) (fr fr' : frs) :
  (forall c' ps, slot_get s name = Some (VPkt c' ps) -> LV (VPkt c' ps)) ->
  good fr -> good fr' -> feq fr fr' ->
  kres_equiv (pack_elem hb dl rec1 cf c name e s fr) (pack_elem hb dl rec2 cf c name e s fr').
Proof.
  intros HL G G' F. destruct e as [l|c' pr|sel d]; cbn [pack_elem].
  - apply pack_leaf_equiv; assumption.
  - destruct (slot_get s name) as [[]|]; try exact I. apply rec_kequiv; auto.
  - destruct (slot_get s name) as [v|]; [|exact I].
    destruct v; try (destruct (eval (pctx s) sel) as [[]|]; try exact I; apply pack_leaf_equiv; assumption).
    apply rec_kequiv; auto.
Qed.

Lemma seq_kequiv (cf : lconf) (c : cid) (i : Z) (e : elem) (al : Z) : forall (vs : list value) (s : slots) (fr fr' : frs),
  (forall v, In v vs -> LV v) -> good fr -> good fr' -> feq fr fr' ->
  kres_equiv (pack_seq hb dl rec1 cf c i e al vs s fr) (pack_seq hb dl rec2 cf c i e al vs s fr').
Proof.
  induction vs as [|v r IH]; intros s fr fr' HL G G' F; cbn [pack_seq]; cbv zeta.
  - cbn. auto.
  - assert (Hc : cur fr' = cur fr) by (symmetry; apply F). rewrite Hc.
    destruct (seq_align al (cur fr)) as [p|] eqn:Ea; [|exact I].
    assert (Hp : 0 <= p) by (apply (seq_align_nn al (cur fr) p); [apply G|exact Ea]).
    pose proof (elem_kequiv cf c (FSeqElem i) e (slot_set s (FSeqElem i) v) (set_cur fr p) (set_cur fr' p)) as H.
    specialize (H ltac:(intros c' ps; rewrite slot_get_set, fname_eqb_refl; intros Hv; injection Hv as <-; apply HL; left; reflexivity)
                  (good_set_cur _ _ G Hp) (good_set_cur _ _ G' Hp) (feq_set_cur _ _ p F)).
    destruct (pack_elem hb dl rec1 cf c (FSeqElem i) e _ (set_cur fr p)) as [s2 fr2| | |],
             (pack_elem hb dl rec2 cf c (FSeqElem i) e _ (set_cur fr' p)) as [s2' fr2'| | |];
      cbn in H |- *; auto; try contradiction.
    destruct H as (<- & F2 & G2 & G2'). apply IH; auto. intros w Hw. apply HL. right. exact Hw.
Qed.

Lemma field_kequiv (cf : lconf) (c : cid) (f : cfield) (s : slots) (fr fr' : frs) (ipp : Z) :
  (forall j v, slot_get s (FN j) = Some v -> LV v) -> good fr -> good fr' -> feq fr fr' ->
  kres_equiv (pack_field hb dl rec1 cf c f s fr ipp) (pack_field hb dl rec2 cf c f s fr' ipp).
Proof.
  intros HL G G' F. assert (Hc : cur fr' = cur fr) by (symmetry; apply F).
  destruct f as [i arg rf al|i e|i first last run0 shift mask nbytes d|i e cnt unt whn d al|i e whn d|i];
    cbn [pack_field].
  - rewrite Hc. destruct (match arg with MConst z => Ok z | MField g => _ | MFun e => _ end) as [z|x]; [|exact I].
    destruct (move_pack al rf z (cur fr) ipp) as [p|] eqn:Em; [|exact I].
    assert (Hp : 0 <= p) by exact (move_nonneg _ _ _ _ _ _ Em).
    cbn. split; [reflexivity|]. split; [apply feq_set_cur; exact F|]. split; apply good_set_cur; assumption.
  - apply elem_kequiv; auto. intros c' ps Hs. exact (HL _ _ Hs).
  - destruct (slot_get s (FBitsI run0)) as [iv0|]; [|exact I]. destruct (slot_get s (FN i)) as [v|]; [|exact I].
    destruct (as_int iv0) as [iv|]; [|exact I]. destruct (as_int v) as [z|]; [|exact I]. cbv zeta.
    destruct last; [|cbn; auto].
    destruct (encode nbytes false true _) as [b|]; [|exact I]. apply emit_equiv; assumption.
  - destruct (slot_get s (FN i)) as [v|] eqn:Es; [|exact I]. destruct v; try exact I.
    apply seq_kequiv; auto. intros v Hv. apply (LV_list l); [exact (HL _ _ Es)|exact Hv].
  - destruct (slot_get s (FN i)) as [v|] eqn:Es; [|exact I].
    assert (Hgen : kres_equiv (pack_elem hb dl rec1 cf c (FOptElem i) e (slot_set s (FOptElem i) v) fr)
                              (pack_elem hb dl rec2 cf c (FOptElem i) e (slot_set s (FOptElem i) v) fr')).
    { apply elem_kequiv; auto. intros c' ps. rewrite slot_get_set, fname_eqb_refl. intros Hv. injection Hv as <-.
      exact (HL _ _ Es). }
    destruct v; try exact Hgen. cbn. auto.
  - apply emit_equiv; assumption.
Qed.
End PEquiv.

(* the declared-field slots are never written by pack *)
Lemma seq_fn (hb : bool) (dl : dstate) (rec : cid -> slots -> frs -> qres) (cf : lconf) (c : cid) (i : Z) (e : elem) (al : Z) :
  forall (vs : list value) (s : slots) (fr : frs) (s' : slots) (fr1 : frs),
  pack_seq hb dl rec cf c i e al vs s fr = KOk s' fr1 -> fn_same s s'.
Proof.
  induction vs as [|v r IH]; intros s fr s' fr1; cbn [pack_seq]; cbv zeta.
  - intros H. injection H as <- _. apply fn_same_refl.
  - destruct (seq_align al (cur fr)) as [p|]; [|discriminate].
    destruct (pack_elem hb dl rec cf c (FSeqElem i) e (slot_set s (FSeqElem i) v) (set_cur fr p)) as [s2 fr2| | |] eqn:E;
      try discriminate.
    apply pack_elem_slots in E. subst s2. intros H. apply IH in H.
    eapply fn_same_trans; [|exact H]. apply fn_same_set. discriminate.
Qed.

Lemma field_fn (hb : bool) (dl : dstate) (rec : cid -> slots -> frs -> qres) (cf : lconf) (c : cid) (f : cfield)
      (s : slots) (fr : frs) (ipp : Z) (s1 : slots) (fr1 : frs) :
  pack_field hb dl rec cf c f s fr ipp = KOk s1 fr1 -> fn_same s s1.
Proof.
  destruct f as [i arg rf al|i e|i first last run0 shift mask nbytes d|i e cnt unt whn d al|i e whn d|i];
    cbn [pack_field].
  - destruct (match arg with MConst z => Ok z | MField g => _ | MFun e => _ end) as [z|x]; [|discriminate].
    destruct (move_pack al rf z (cur fr) ipp) as [p|]; [|discriminate].
    intros H. injection H as <- _. apply fn_same_refl.
  - intros H. apply pack_elem_slots in H. subst s1. apply fn_same_refl.
  - destruct (slot_get s (FBitsI run0)) as [iv0|]; [|discriminate]. destruct (slot_get s (FN i)) as [v|]; [|discriminate].
    destruct (as_int iv0) as [iv|]; [|discriminate]. destruct (as_int v) as [z|]; [|discriminate]. cbv zeta.
    destruct last.
    + destruct (encode nbytes false true _) as [b|]; [|discriminate]. intros H. apply emit_slots in H. subst s1.
      apply fn_same_set. discriminate.
    + intros H. injection H as <- _. apply fn_same_set. discriminate.
  - destruct (slot_get s (FN i)) as [v|]; [|discriminate]. destruct v; try discriminate. apply seq_fn.
  - destruct (slot_get s (FN i)) as [v|]; [|discriminate].
    assert (Hgen : pack_elem hb dl rec cf c (FOptElem i) e (slot_set s (FOptElem i) v) fr = KOk s1 fr1 -> fn_same s s1).
    { intros H. apply pack_elem_slots in H. subst s1. apply fn_same_set. discriminate. }
    destruct v; try exact Hgen. intros H. injection H as <- _. apply fn_same_refl.
  - intros H. apply emit_slots in H. subst s1. apply fn_same_refl.
Qed.

(* ------------------------------------------------------------------------------------------ *)
(** * Pack: one struct run against its members                                                 *)
(* ------------------------------------------------------------------------------------------ *)

(* what StructPack computes for one member *)
Definition mchunk (m : smember) (s : slots) : res bytes :=
  match slot_get s (FN (sm_index m)) with
  | None => Exn AttributeError
  | Some v =>
      match m with
      | SMInt _ n sg big =>
          match as_int v with
          | Some x => match encode n sg big x with Some b => Ok b | None => Exn StructError end
          | None => Exn StructError
          end
      | SMData _ n => match v with VBytes b => Ok (pad_to n b) | _ => Exn StructError end
      end
  end.
Fixpoint chunks (ms : list smember) (s : slots) : res (list bytes) :=
  match ms with
  | [] => Ok []
  | m :: r => do b <- mchunk m s; do bs <- chunks r s; Ok (b :: bs)
  end.

Lemma struct_pack_chunks (s : slots) : forall ms, struct_pack ms s = do bs <- chunks ms s; Ok (concat bs).
Proof.
  induction ms as [|m r IH]; [reflexivity|]. cbn [struct_pack chunks]. unfold mchunk.
  destruct (slot_get s (FN (sm_index m))) as [v|]; [|reflexivity].
  destruct (match m with SMInt _ n sg big => _ | SMData _ n => _ end) as [b|x]; [|reflexivity].
  cbn [bind]. rewrite IH. destruct (chunks r s) as [bs|x]; reflexivity.
Qed.

Lemma chunks_nonempty (s : slots) (ms : list smember) (bs : list bytes) : chunks ms s = Ok bs -> ms <> [] -> bs <> [].
Proof.
  destruct ms as [|m r]; [congruence|]. cbn [chunks]. intros H _.
  destruct (mchunk m s) as [b|]; [|discriminate H]. cbn [bind] in H.
  destruct (chunks r s) as [bs'|]; [|discriminate H]. cbn [bind] in H. injection H as <-. discriminate.
Qed.

Lemma pad_to_id (n : Z) (b : bytes) : blen b = n -> pad_to n b = b.
Proof.
  intros <-. unfold pad_to. rewrite slice_0. unfold blen. rewrite Nat2Z.id. apply firstn_len_app.
Qed.

(* the exclusion of finding D11 for one field: a Data(n) holds exactly n bytes *)
Definition dcond (s : slots) (f : cfield) : Prop :=
  forall i n d b, f = CElem i (ELeafE (LDataSized (ELit (VInt n)) true d)) -> slot_get s (FN i) = Some (VBytes b) -> blen b = n.

Lemma dcond_fn (s s1 : slots) (f : cfield) : fn_same s s1 -> dcond s f -> dcond s1 f.
Proof. intros Hs H i n d b E G. rewrite Hs in G. exact (H i n d b E G). Qed.

Lemma member_pack (hb : bool) (dl : dstate) (rec : cid -> slots -> frs -> qres) (cf : lconf) (c : cid)
      (f : cfield) (m : smember) (s : slots) (fr : frs) (ipp : Z) :
  fixity_of hb cf f = FStruct m -> dcond s f ->
  match mchunk m s with
  | Ok b => pack_field hb dl rec cf c f s fr ipp = emit s fr b
  | Exn _ => exists e, pack_field hb dl rec cf c f s fr ipp = KExn e (cur fr)
  end.
Proof.
  intros Hfx Hd.
  destruct (fixity_struct_inv _ _ _ _ Hfx) as [(i & n & sg & fe & d & -> & Hc & ->)|(i & n & d & -> & ->)];
    unfold mchunk; cbn [sm_index pack_field pack_elem]; unfold pack_leaf.
  - destruct (slot_get s (FN i)) as [v|]; [|eauto]. destruct (as_int v) as [z|]; [|eauto].
    destruct (encode n sg _ z) as [b|]; [reflexivity|eauto].
  - destruct (slot_get s (FN i)) as [v|] eqn:Es; [|eauto].
    destruct v; try (eexists; reflexivity).
    rewrite pad_to_id by (eapply Hd; [reflexivity|exact Es]). unfold data_pack. rewrite app_nil_r. reflexivity.
Qed.

(* the generic loop over the members = `extend` over their chunks *)
Lemma run_pack_chunks (hb : bool) (dl : dstate) (rec : cid -> slots -> frs -> qres) (cf : lconf) (c : cid) (ipp : Z)
      (s : slots) (fs : list cfield) :
  forall (pf : list cfield) (ms : list smember), Forall2 (fun f m => fixity_of hb cf f = FStruct m) pf ms ->
  Forall (dcond s) pf -> forall fr : frs,
  match chunks ms s with
  | Exn _ => exists st, pack_fields hb dl rec cf c (pf ++ fs) s fr ipp = QFail st
  | Ok bs =>
      match extend fr bs with
      | Frag.Ok fr1 => pack_fields hb dl rec cf c (pf ++ fs) s fr ipp = pack_fields hb dl rec cf c fs s fr1 ipp
      | _ => exists st, pack_fields hb dl rec cf c (pf ++ fs) s fr ipp = QFail st
      end
  end.
Proof.
  intros pf ms H. induction H as [|f m pf ms Hfx HR IH]; intros Hd fr.
  - cbn [chunks extend app]. reflexivity.
  - inversion Hd as [|f0 pf0 Hdf Hdr]; subst f0 pf0. specialize (IH Hdr).
    cbn [chunks app pack_fields].
    pose proof (member_pack hb dl rec cf c f m s fr ipp Hfx Hdf) as Hm.
    destruct (mchunk m s) as [b|x]; cbn [bind].
    + rewrite Hm. unfold emit, append. cbn [extend].
      destruct (chunks ms s) as [bs|x] eqn:Ec; cbn [bind].
      * cbn [extend]. destruct (insert fr (cur fr) b) as [fr1| |]; [exact (IH fr1)|eauto|eauto].
      * destruct (insert fr (cur fr) b) as [fr1| |]; [exact (IH fr1)|eauto|eauto].
    + destruct Hm as [e ->]. eauto.
Qed.

(* ------------------------------------------------------------------------------------------ *)
(** * Pack: blocks against fields                                                              *)
(* ------------------------------------------------------------------------------------------ *)

Section PRun.
Variable hb : bool.
Variable dl : dstate.
Variables rec1 rec2 : cid -> slots -> frs -> qres.
Variable LV : value -> Prop.
Hypothesis LV_list : forall l v, LV (VList l) -> In v l -> LV v.
Hypothesis Hrec : forall c ps fr fr', LV (VPkt c ps) -> good fr -> good fr' -> feq fr fr' ->
  qres_equiv (rec1 c ps fr) (rec2 c ps fr').
Variable cf : lconf.
Variable c : cid.
Variable ipp : Z.
Variable allfields : list cfield.

(* what is known of the slots all along: nested values are fine, Data(n) fields hold n bytes *)
Definition Iv (s : slots) : Prop :=
  (forall j v, slot_get s (FN j) = Some v -> LV v) /\ Forall (dcond s) allfields.

Lemma Iv_fn (s s1 : slots) : fn_same s s1 -> Iv s -> Iv s1.
Proof.
  intros Hs [H1 H2]. split.
  - intros j v G. rewrite Hs in G. exact (H1 j v G).
  - apply Forall_forall. intros f Hin. rewrite Forall_forall in H2. exact (dcond_fn _ _ _ Hs (H2 f Hin)).
Qed.

Definition PP (bs : list block) (fs : list cfield) : Prop :=
  forall s fr fr', Iv s -> good fr -> good fr' -> feq fr fr' ->
    qres_equiv (pack_blocks hb dl rec1 cf c bs s fr ipp) (pack_fields hb dl rec2 cf c fs s fr' ipp).

Lemma PP_nil : PP [] [].
Proof. intros s fr fr' _ G G' F. cbn. auto. Qed.

Lemma PP_loop (f : cfield) (rest : list block) (fs : list cfield) : PP rest fs -> PP (BLoop f :: rest) (f :: fs).
Proof.
  intros H s fr fr' HI G G' F. cbn [pack_blocks pack_fields].
  pose proof (field_kequiv hb dl rec1 rec2 LV LV_list Hrec cf c f s fr fr' ipp (proj1 HI) G G' F) as Hk.
  destruct (pack_field hb dl rec1 cf c f s fr ipp) as [s1 fr1| | |] eqn:E1,
           (pack_field hb dl rec2 cf c f s fr' ipp) as [s1' fr1'| | |]; cbn in Hk |- *; auto; try contradiction.
  destruct Hk as (<- & F1 & G1 & G1'). apply H; auto. exact (Iv_fn _ _ (field_fn _ _ _ _ _ _ _ _ _ _ _ E1) HI).
Qed.

Lemma FF : forall (fs : list cfield) s fr fr', Iv s -> good fr -> good fr' -> feq fr fr' ->
  qres_equiv (pack_fields hb dl rec1 cf c fs s fr ipp) (pack_fields hb dl rec2 cf c fs s fr' ipp).
Proof.
  induction fs as [|f r IH]; intros s fr fr' HI G G' F; cbn [pack_fields].
  - cbn. auto.
  - pose proof (field_kequiv hb dl rec1 rec2 LV LV_list Hrec cf c f s fr fr' ipp (proj1 HI) G G' F) as Hk.
    destruct (pack_field hb dl rec1 cf c f s fr ipp) as [s1 fr1| | |] eqn:E1,
             (pack_field hb dl rec2 cf c f s fr' ipp) as [s1' fr1'| | |]; cbn in Hk |- *; auto; try contradiction.
    destruct Hk as (<- & F1 & G1 & G1'). apply IH; auto. exact (Iv_fn _ _ (field_fn _ _ _ _ _ _ _ _ _ _ _ E1) HI).
Qed.

Lemma PP_run (b : bool) (pf : list cfield) (ms : list smember) (rest : list block) (fs : list cfield) :
  pf <> [] -> Forall (fun f => In f allfields) pf -> Forall2 (fun f m => fixity_of hb cf f = FStruct m) pf ms ->
  PP rest fs -> PP (BStruct b ms :: rest) (pf ++ fs).
Proof.
  intros Hne Hin HR H s fr fr' HI G G' F. cbn [pack_blocks]. rewrite struct_pack_chunks.
  assert (Hd : Forall (dcond s) pf).
  { destruct HI as [_ HD]. rewrite Forall_forall in HD, Hin |- *. intros f Hf. exact (HD f (Hin f Hf)). }
  pose proof (run_pack_chunks hb dl rec2 cf c ipp s fs pf ms HR Hd fr') as Hrun.
  destruct (chunks ms s) as [bs|x] eqn:Ec; cbn [bind].
  - assert (Hbs : bs <> []).
    { apply (chunks_nonempty s ms bs Ec). intros ->. inversion HR. subst pf. congruence. }
    pose proof (extend_concat bs Hbs fr fr' G G' F) as He.
    destruct (append fr (concat bs)) as [fr1| |], (extend fr' bs) as [fr1'| |]; cbn in He; try contradiction.
    + rewrite Hrun. destruct He as (F1 & G1 & G1'). apply H; auto.
    + destruct Hrun as [st ->]. exact I.
  - destruct Hrun as [st ->]. exact I.
Qed.

Lemma PP_gen (vec : bool) (fs : list cfield) : Forall (fun f => In f allfields) fs -> PP (gen_blocks hb cf vec fs None) fs.
Proof.
  intros Hs.
  apply (gen_blocks_rel hb cf (fun f => In f allfields) PP PP_nil); [| |exact Hs].
  - intros f rest fs' _. apply PP_loop.
  - intros b pf ms rest fs'. apply PP_run.
Qed.
End PRun.

(* ------------------------------------------------------------------------------------------ *)
(** * Pack: any two option settings                                                            *)
(* ------------------------------------------------------------------------------------------ *)

Definition prun (hb : bool) (dl : dstate) (rec : cid -> slots -> frs -> qres) (gen vec : bool) (cf : lconf) (c : cid)
           (fs : list cfield) (s : slots) (fr : frs) : qres :=
  if gen then pack_blocks hb dl rec cf c (gen_blocks hb cf vec fs None) s fr (cur fr)
  else pack_fields hb dl rec cf c fs s fr (cur fr).

Lemma in_self {A : Type} (l : list A) : Forall (fun x => In x l) l.
Proof. apply Forall_forall. auto. Qed.

Lemma prun_equiv (hb : bool) (dl : dstate) (rec1 rec2 : cid -> slots -> frs -> qres) (LV : value -> Prop)
      (g1 v1 g2 v2 : bool) (cf : lconf) (c : cid) (fs : list cfield) (s : slots) (fr fr' : frs) :
  (forall l v, LV (VList l) -> In v l -> LV v) ->
  (forall c ps fr fr', LV (VPkt c ps) -> good fr -> good fr' -> feq fr fr' -> qres_equiv (rec1 c ps fr) (rec2 c ps fr')) ->
  Iv LV fs s -> good fr -> good fr' -> feq fr fr' ->
  qres_equiv (prun hb dl rec1 g1 v1 cf c fs s fr) (prun hb dl rec2 g2 v2 cf c fs s fr').
Proof.
  intros LV_list Hrec HI G G' F.
  assert (Hrec21 : forall c ps fr fr', LV (VPkt c ps) -> good fr -> good fr' -> feq fr fr' ->
                                       qres_equiv (rec2 c ps fr) (rec1 c ps fr')).
  { intros c0 ps a b HL Ga Gb Fab. apply qres_equiv_sym. apply Hrec; auto. apply feq_sym. exact Fab. }
  assert (Hrec22 : forall c ps fr fr', LV (VPkt c ps) -> good fr -> good fr' -> feq fr fr' ->
                                       qres_equiv (rec2 c ps fr) (rec2 c ps fr')).
  { intros c0 ps a b HL Ga Gb Fab. eapply qres_equiv_trans; [apply (Hrec21 c0 ps a a HL Ga Ga (feq_refl a))|].
    apply Hrec; auto. }
  assert (Hc : cur fr' = cur fr) by (symmetry; apply F).
  unfold prun. rewrite Hc. destruct g1, g2.
  - eapply qres_equiv_trans.
    + apply (PP_gen hb dl rec1 rec2 LV LV_list Hrec cf c (cur fr) fs v1 fs (in_self fs) s fr fr' HI G G' F).
    + apply qres_equiv_sym.
      apply (PP_gen hb dl rec2 rec2 LV LV_list Hrec22 cf c (cur fr) fs v2 fs (in_self fs) s fr' fr' HI G' G' (feq_refl fr')).
  - apply (PP_gen hb dl rec1 rec2 LV LV_list Hrec cf c (cur fr) fs v1 fs (in_self fs) s fr fr' HI G G' F).
  - apply qres_equiv_sym.
    apply (PP_gen hb dl rec2 rec1 LV LV_list Hrec21 cf c (cur fr) fs v2 fs (in_self fs) s fr' fr HI G' G (feq_sym _ _ F)).
  - apply (FF hb dl rec1 rec2 LV LV_list Hrec cf c (cur fr) fs fs s fr fr' HI G G' F).
Qed.

(* ---- lens_ok ---- *)
Lemma lens_ok_S (f : nat) (ct : ctab) (v : value) :
  lens_ok (S f) ct v =
  match v with
  | VPkt c s =>
      match ct_get ct c with
      | None => false
      | Some k =>
          forallb (fun cf => match cf with
                             | CElem i (ELeafE (LDataSized (ELit (VInt n)) true _)) =>
                                 match slot_get s (FN i) with Some (VBytes b) => blen b =? n | _ => true end
                             | _ => true
                             end) (cc_fields k)
          && forallb (fun fv => lens_ok f ct (snd fv)) s
      end
  | VList l => forallb (lens_ok f ct) l
  | _ => true
  end.
Proof. reflexivity. Qed.

Lemma lens_ok_mono (ct : ctab) : forall f v, lens_ok f ct v = true -> lens_ok (S f) ct v = true.
Proof.
  induction f as [|f IH]; intros v H; [discriminate H|].
  rewrite lens_ok_S in H. rewrite (lens_ok_S (S f)).
  destruct v; try reflexivity.
  - rewrite forallb_forall in H |- *. intros x Hx. apply IH. exact (H x Hx).
  - destruct (ct_get ct c) as [k|]; [|discriminate H]. apply andb_true_iff in H. destruct H as [H1 H2].
    apply andb_true_iff. split; [exact H1|]. rewrite forallb_forall in H2 |- *. intros x Hx. apply IH. exact (H2 x Hx).
Qed.

Lemma lens_ok_list (ct : ctab) (f : nat) (l : list value) (v : value) :
  lens_ok f ct (VList l) = true -> In v l -> lens_ok f ct v = true.
Proof.
  destruct f as [|f]; [discriminate|]. rewrite lens_ok_S. intros H Hin. rewrite forallb_forall in H.
  apply lens_ok_mono. exact (H v Hin).
Qed.

Lemma lens_ok_Iv (ct : ctab) (f : nat) (c : cid) (s : slots) (k : cclass) :
  lens_ok (S f) ct (VPkt c s) = true -> ct_get ct c = Some k ->
  Iv (fun v => lens_ok f ct v = true) (cc_fields k) s.
Proof.
  rewrite lens_ok_S. intros H G. rewrite G in H. apply andb_true_iff in H. destruct H as [H1 H2].
  rewrite forallb_forall in H1, H2. split.
  - intros j v Hs. destruct (slot_get_in _ _ _ Hs) as [g Hg]. exact (H2 _ Hg).
  - apply Forall_forall. intros x Hx i n d b -> Hs. specialize (H1 _ Hx). cbn beta iota in H1.
    rewrite Hs in H1. apply Z.eqb_eq. exact H1.
Qed.

Lemma pack_any_prun (fuel : nat) (hb : bool) (dl : dstate) (ct : ctab) (c : cid) (s : slots) (fr : frs) :
  pack_any (S fuel) hb dl ct c s fr =
  match ct_get ct c with
  | None => QFuel
  | Some k => prun hb dl (pack_any fuel hb dl ct) (cc_gen_pack k) (cc_vectorize k) (cc_conf k) c (cc_fields k) s fr
  end.
Proof. reflexivity. Qed.

(* ct_wf is not needed: seq_align keeps a non-negative cursor non-negative whatever the alignment is *)
Theorem pack_codegen_equiv : forall fuel host dl ct ct' c s fr fr',
  same_decls ct ct' -> ct_wf ct = true -> ct_sizes_ok ct = true -> lens_ok fuel ct (VPkt c s) = true ->
  good fr -> good fr' -> feq fr fr' ->
  qres_equiv (pack_any fuel host dl ct c s fr) (pack_any fuel host dl ct' c s fr').
Proof.
  induction fuel as [|fuel IH]; intros host dl ct ct' c s fr fr' Hsd Hwf Hs HL G G' F.
  - cbn. auto.
  - rewrite !pack_any_prun. pose proof (same_decls_get ct ct' c Hsd) as Hg.
    destruct (ct_get ct c) as [k|] eqn:Gk, (ct_get ct' c) as [k'|]; try contradiction; [|cbn; auto].
    destruct Hg as (<- & <-).
    apply (prun_equiv host dl (pack_any fuel host dl ct) (pack_any fuel host dl ct') (fun v => lens_ok fuel ct v = true)).
    + intros l v. apply lens_ok_list.
    + intros c0 ps a b HL0 Ga Gb Fab. apply IH; assumption.
    + exact (lens_ok_Iv ct fuel c s k HL Gk).
    + exact G.
    + exact G'.
    + exact F.
Qed.

(* Packet.pack(): same bytes or both fail, whatever the four options are *)
Theorem pack_top_codegen_equiv : forall fuel host dl ct ct' c s,
  same_decls ct ct' -> ct_wf ct = true -> ct_sizes_ok ct = true -> lens_ok fuel ct (VPkt c s) = true ->
  match pack_any_top fuel host dl ct c s, pack_any_top fuel host dl ct' c s with
  | PBytes b v, PBytes b' v' => b = b' /\ v = v'
  | PErr _, PErr _ => True
  | PNoFuel, PNoFuel => True
  | _, _ => False
  end.
Proof.
  intros fuel host dl ct ct' c s Hsd Hwf Hs HL. unfold pack_any_top.
  pose proof (pack_codegen_equiv fuel host dl ct ct' c s empty empty Hsd Hwf Hs HL good_empty good_empty (feq_refl empty)) as H.
  destruct (pack_any fuel host dl ct c s empty) as [v fr| |], (pack_any fuel host dl ct' c s empty) as [v' fr'| |];
    cbn in H; try contradiction; auto.
  destruct H as (-> & F & G & G'). split; [|reflexivity]. apply feq_tobytes; assumption.
Qed.

Print Assumptions unpack_codegen_equiv.
Print Assumptions unpack_any_generic.
Print Assumptions pack_codegen_equiv.
Print Assumptions feq_tobytes.
Print Assumptions pack_top_codegen_equiv.
