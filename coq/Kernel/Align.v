(* Kernel/Align.v -- model of the positioning arithmetic: structural_fields.Move.unpack / Move.pack
   (at, shift, aligned, and the class-wide align option which describe turns into Moves) and the
   per-element alignment of Sequence.  With the D2 fix a negative resulting position is an error on
   both sides.  Definitions only. *)
From Coq Require Import ZArith List Bool Lia.
Import ListNotations.
Open Scope Z_scope.

Inductive reference := RInner | RBegins | RCur.     (* 'innermost-pkt' | 'begins' | 'current-offset' *)

(* x % m in python raises ZeroDivisionError for m = 0; otherwise it is Coq's Z.modulo (sign of m) *)
Definition pymod (x m : Z) : option Z := if m =? 0 then None else Some (x mod m).

Definition align_start (r : reference) (offset ipp : Z) : Z :=
  match r with RBegins => 0 | RCur => offset | RInner => ipp end.
(* offset + ((mv - ((offset - start) % mv)) % mv) *)
Definition align_to (mv offset start : Z) : option Z :=
  match pymod (offset - start) mv with
  | None => None
  | Some r1 => match pymod (mv - r1) mv with None => None | Some r2 => Some (offset + r2) end
  end.
Definition jump_to (r : reference) (mv offset ipp : Z) : Z :=
  match r with RBegins => mv | RCur => offset + mv | RInner => ipp + mv end.

(* Move.unpack: the new cursor; None = raises (-> PacketError) *)
Definition move_unpack (is_alignment : bool) (r : reference) (mv offset ipp : Z) : option Z :=
  let res := if is_alignment then align_to mv offset (align_start r offset ipp)
             else Some (jump_to r mv offset ipp) in
  match res with
  | Some o => if o <? 0 then None else Some o
  | None => None
  end.
(* Move.pack computes the same from fragments.current_offset and k['innermost-pkt-pos'] *)
Definition move_pack (is_alignment : bool) (r : reference) (mv offset ipp : Z) : option Z :=
  let res := if is_alignment then align_to mv offset (align_start r offset ipp)
             else Some (jump_to r mv offset ipp) in
  match res with
  | Some o => if o <? 0 then None else Some o
  | None => None
  end.

(* Sequence: offset += (aligned_to - (offset % aligned_to)) % aligned_to, both directions *)
Definition seq_align (a offset : Z) : option Z :=
  match pymod offset a with
  | None => None
  | Some r1 => match pymod (a - r1) a with None => None | Some r2 => Some (offset + r2) end
  end.
