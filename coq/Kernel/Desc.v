(* Kernel/Desc.v -- model of bisturi/descriptor.py (Auto / AutoLength) together with the places that
   drive it: Packet.__init__ (keyword for the described name), Packet.unpack (a fresh instance),
   sync_before_pack (generic loop and generated code call the same hook) and the real field's pack.
   The described field is an integer field; `compute` is the descriptor's function of the tracked
   field (len for AutoLength).  Definitions only. *)
From Coq Require Import ZArith List Bool Lia.
Import ListNotations.
Open Scope Z_scope.

Section Desc.
Variable T : Type.                 (* values of the tracked field *)
Variable compute : T -> Z.         (* func(instance): for AutoLength, len(tracked) *)

(* concrete per-instance state: the tracked field, the hidden real slot (_described_x) and the
   enabled flag slot (_is_descriptor_x_enabled), which may be unset (getattr default True) *)
Record cstate := { tracked : T; real : Z; enabled : option bool }.

(* Auto.__get__ *)
Definition c_get (s : cstate) : Z :=
  let iam_enabled := match enabled s with Some b => b | None => true end in
  if iam_enabled then compute (tracked s) else real s.
(* Auto.__set__ *)
Definition c_set (s : cstate) (v : Z) : cstate := {| tracked := tracked s; real := v; enabled := Some false |}.
(* Auto.__delete__ *)
Definition c_del (s : cstate) : cstate := {| tracked := tracked s; real := real s; enabled := Some true |}.
Definition c_set_tracked (s : cstate) (t : T) : cstate := {| tracked := t; real := real s; enabled := enabled s |}.
(* Auto.sync_before_pack: real := __get__ *)
Definition c_sync (s : cstate) : cstate := {| tracked := tracked s; real := c_get s; enabled := enabled s |}.
(* pack: the sync hook runs, then the real field is serialized; returns the new state and the integer
   that goes on the wire *)
Definition c_pack (s : cstate) : cstate * Z := let s' := c_sync s in (s', real s').
(* Packet(keywords): every field's init (real := default), then the keyword for the described name goes
   through __set__ *)
Definition c_construct (t0 : T) (default : Z) (kw : option Z) : cstate :=
  let s := {| tracked := t0; real := default; enabled := None |} in
  match kw with Some v => c_set s v | None => s end.
(* Cls.unpack(raw): a fresh instance whose slots are written by the fields *)
Definition c_unpack (t : T) (parsed : Z) : cstate := {| tracked := t; real := parsed; enabled := None |}.

(* abstract specification: the tracked value and the explicitly assigned value, if any *)
Record astate := { a_tracked : T; a_explicit : option Z }.
Definition a_get (a : astate) : Z := match a_explicit a with Some v => v | None => compute (a_tracked a) end.

Inductive dop := DSetTracked (t : T) | DSet (v : Z) | DDel | DPack | DConstruct (t0 : T) (default : Z) (kw : option Z)
               | DUnpack (t : T) (parsed : Z).
(* every operation also yields an observation: what the attribute reads as afterwards and, for pack,
   the serialized integer *)
Definition c_step (s : cstate) (o : dop) : cstate * option Z :=
  match o with
  | DSetTracked t => (c_set_tracked s t, None)
  | DSet v => (c_set s v, None)
  | DDel => (c_del s, None)
  | DPack => let '(s', w) := c_pack s in (s', Some w)
  | DConstruct t0 d kw => (c_construct t0 d kw, None)
  | DUnpack t p => (c_unpack t p, None)
  end.
Definition a_step (a : astate) (o : dop) : astate * option Z :=
  match o with
  | DSetTracked t => ({| a_tracked := t; a_explicit := a_explicit a |}, None)
  | DSet v => ({| a_tracked := a_tracked a; a_explicit := Some v |}, None)
  | DDel => ({| a_tracked := a_tracked a; a_explicit := None |}, None)
  | DPack => (a, Some (a_get a))
  | DConstruct t0 d kw => ({| a_tracked := t0; a_explicit := kw |}, None)
  | DUnpack t p => ({| a_tracked := t; a_explicit := None |}, None)
  end.
(* run a history, collecting after every step (read value, wire value if the step was a pack) *)
Fixpoint c_run (s : cstate) (ops : list dop) : list (Z * option Z) :=
  match ops with
  | [] => []
  | o :: r => let '(s', w) := c_step s o in (c_get s', w) :: c_run s' r
  end.
Fixpoint a_run (a : astate) (ops : list dop) : list (Z * option Z) :=
  match ops with
  | [] => []
  | o :: r => let '(a', w) := a_step a o in (a_get a', w) :: a_run a' r
  end.
End Desc.
