(* Kernel/Regex.v -- the regular expressions that Packet.as_regular_expression builds (under the (?s) flag:
   `.` matches every byte) and their language, as an inductive matching relation.  That python's `re` engine
   decides exactly this language for these constructs (match = some prefix of the input is in the language)
   is trusted.  Definitions only. *)
From Coq Require Import ZArith List Bool Lia.
From Bisturi Require Import Base.Bytes Kernel.DataK.
Import ListNotations.
Open Scope Z_scope.

Inductive rx :=
| RLit (b : bytes)                 (* re.escape(b): exactly these bytes *)
| RAny (n : Z)                     (* .{n}  : any n bytes *)
| RStar                            (* .*    : any bytes *)
| RRange (lo hi : Z)               (* [lo-hi] : one byte in the closed range *)
| RSet (cs : list Z)               (* [abc..] : one byte of the set *)
| RDelim (r : regex)               (* (?:pattern) of a delimiter regex of the closed class of Kernel/DataK.v *)
| REnd.                            (* (?:$) : the end of the input *)

(* `matches r w rest`: the word w is matched by r when the input continues with `rest` (only REnd looks at it) *)
Inductive matches : rx -> bytes -> bytes -> Prop :=
| MLit : forall b rest, matches (RLit b) b rest
| MAny : forall n w rest, blen w = n -> matches (RAny n) w rest
| MStar : forall w rest, matches RStar w rest
| MRange : forall lo hi x rest, lo <= x <= hi -> matches (RRange lo hi) [x] rest
| MSet : forall cs x rest, In x cs -> matches (RSet cs) [x] rest
| MDelim : forall r w rest a, In a r -> alt_word a w -> matches (RDelim r) w rest
| MEnd : matches REnd [] []
with alt_word : alt -> bytes -> Prop :=
| AWLit : forall b, alt_word (ALit b) b
| AWPlus : forall c n, (0 < n)%nat -> alt_word (APlus c) (repeat c n).

(* a sequence of parts matches the concatenation of words each part matches *)
Inductive matches_seq : list rx -> bytes -> bytes -> Prop :=
| MSNil : forall rest, matches_seq [] [] rest
| MSCons : forall r rs w ws rest, matches r w (ws ++ rest) -> matches_seq rs ws rest -> matches_seq (r :: rs) (w ++ ws) rest.

(* pattern.match(raw): some prefix of raw is in the language *)
Definition prefix_match (rs : list rx) (raw : bytes) : Prop :=
  exists w rest, raw = w ++ rest /\ matches_seq rs w rest.
