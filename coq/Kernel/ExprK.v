(* Kernel/ExprK.v -- deferred field expressions (bisturi/deferred.py), generically in the value domain, the
   exceptions, the field names and the operator semantics (Section variables): the expression trees that the
   deferred operators build (UnaryExpr / BinaryExpr / NaryExpr with a list or a mapping), their eager python
   meaning `eval` (operands left to right, first exception wins), the postfix program `compile` that
   compile_expr produces and the stack machine `run` = exec_compiled_expr (the result list has the top of the
   stack at index 0; an operator receives reversed(args[:n])).  Theorem compile_correct: the machine computes
   exactly the eager meaning, for every expression, environment and stack. *)
From Coq Require Import ZArith List Bool Lia.
Import ListNotations.

Section Expr.
Variable V : Type.           (* python values *)
Variable E : Type.           (* python exceptions *)
Variable env : Type.
Variable F : Type.           (* field names *)
Variable lookup : env -> F -> V + E.               (* getattr(pkt, field_name) *)
Variable op1 : nat -> V -> V + E.                  (* unary ops, by code *)
Variable op2 : nat -> V -> V -> V + E.             (* binary ops: op2 c l r = operator.c(l, r) *)
Variable mk_tuple : list V -> V.                   (* lambda *vargs: vargs *)
Variable mk_dict : list V -> list V -> V.          (* dict(zip(keys, vargs)) *)

Inductive expr :=
| Lit (v : V)
| Fld (f : F)
| Un (c : nat) (a : expr)
| Bin (c : nat) (l r : expr)
| NaryL (c : nat) (l : expr) (args : list expr)
| NaryD (c : nat) (l : expr) (keys : list V) (args : list expr).

(* eager python evaluation, left to right, first exception wins *)
Fixpoint eval (pk : env) (e : expr) : V + E :=
  match e with
  | Lit v => inl v
  | Fld f => lookup pk f
  | Un c a => match eval pk a with inl x => op1 c x | inr ex => inr ex end
  | Bin c l r => match eval pk l with inr ex => inr ex | inl x =>
                 match eval pk r with inr ex => inr ex | inl y => op2 c x y end end
  | NaryL c l args =>
      match eval pk l with inr ex => inr ex | inl x =>
      match (fix go (es : list expr) : list V + E :=
               match es with [] => inl [] | a :: r =>
                 match eval pk a with inr ex => inr ex | inl y =>
                 match go r with inr ex => inr ex | inl ys => inl (y :: ys) end end end) args
      with inr ex => inr ex | inl ys => op2 c x (mk_tuple ys) end end
  | NaryD c l keys args =>
      match eval pk l with inr ex => inr ex | inl x =>
      match (fix go (es : list expr) : list V + E :=
               match es with [] => inl [] | a :: r =>
                 match eval pk a with inr ex => inr ex | inl y =>
                 match go r with inr ex => inr ex | inl ys => inl (y :: ys) end end end) args
      with inr ex => inr ex | inl ys => op2 c x (mk_dict keys ys) end end
  end.

(* postfix program, as compile_expr builds it *)
Inductive instr :=
| IPush (v : V) | ILoad (f : F) | IOp1 (c : nat) | IOp2 (c : nat)
| ITuple (n : nat) | IDict (keys : list V) (n : nat).

Fixpoint compile (e : expr) : list instr :=
  match e with
  | Lit v => [IPush v]
  | Fld f => [ILoad f]
  | Un c a => compile a ++ [IOp1 c]
  | Bin c l r => compile l ++ compile r ++ [IOp2 c]
  | NaryL c l args => compile l ++ flat_map compile args ++ [ITuple (length args); IOp2 c]
  | NaryD c l keys args => compile l ++ flat_map compile args ++ [IDict keys (length args); IOp2 c]
  end.

(* exec_compiled_expr: args list with top of stack at index 0;
   the callee gets reversed(args[:n]); then del args[:n]; args.insert(0, result) *)
Definition step (pk : env) (st : list V) (i : instr) : list V + E :=
  match i with
  | IPush v => inl (v :: st)
  | ILoad f => match lookup pk f with inl v => inl (v :: st) | inr ex => inr ex end
  | IOp1 c => match st with
              | x :: r => match op1 c x with inl v => inl (v :: r) | inr ex => inr ex end
              | _ => inl st (* unreachable for compiled code; python would raise TypeError *)
              end
  | IOp2 c => match st with
              | y :: x :: r => match op2 c x y with inl v => inl (v :: r) | inr ex => inr ex end
              | _ => inl st
              end
  | ITuple n => inl (mk_tuple (rev (firstn n st)) :: skipn n st)
  | IDict keys n => inl (mk_dict keys (rev (firstn n st)) :: skipn n st)
  end.

Fixpoint run (pk : env) (st : list V) (p : list instr) : list V + E :=
  match p with [] => inl st | i :: r =>
    match step pk st i with inl st' => run pk st' r | inr ex => inr ex end end.

Lemma run_app pk p q st : run pk st (p ++ q) =
  match run pk st p with inl st' => run pk st' q | inr ex => inr ex end.
Proof. revert st; induction p as [|i p IH]; intros st; cbn; auto. destruct (step pk st i); auto. Qed.


(* evaluation of an argument list *)
Fixpoint evals (pk : env) (es : list expr) : list V + E :=
  match es with [] => inl [] | a :: r =>
    match eval pk a with inr ex => inr ex | inl y =>
    match evals pk r with inr ex => inr ex | inl ys => inl (y :: ys) end end end.

Lemma eval_naryl pk c l args : eval pk (NaryL c l args) =
  match eval pk l with inr ex => inr ex | inl x =>
  match evals pk args with inr ex => inr ex | inl ys => op2 c x (mk_tuple ys) end end.
Proof.
  cbn [eval]. destruct (eval pk l); auto.
  match goal with |- match ?a with _ => _ end = match ?b with _ => _ end => replace a with b; auto end.
  induction args as [|a r IH]; cbn [evals]; auto. destruct (eval pk a); auto. rewrite IH. reflexivity.
Qed.

Section Ind.
Variable P : expr -> Prop.
Hypothesis HL : forall v, P (Lit v).
Hypothesis HF : forall f, P (Fld f).
Hypothesis HU : forall c a, P a -> P (Un c a).
Hypothesis HB : forall c l r, P l -> P r -> P (Bin c l r).
Hypothesis HNL : forall c l args, P l -> Forall P args -> P (NaryL c l args).
Hypothesis HND : forall c l keys args, P l -> Forall P args -> P (NaryD c l keys args).
Fixpoint expr_ind' (e : expr) : P e :=
  match e with
  | Lit v => HL v | Fld f => HF f
  | Un c a => HU c a (expr_ind' a)
  | Bin c l r => HB c l r (expr_ind' l) (expr_ind' r)
  | NaryL c l args => HNL c l args (expr_ind' l)
      ((fix go (es : list expr) : Forall P es :=
          match es with [] => Forall_nil P | a :: r => Forall_cons a (expr_ind' a) (go r) end) args)
  | NaryD c l keys args => HND c l keys args (expr_ind' l)
      ((fix go (es : list expr) : Forall P es :=
          match es with [] => Forall_nil P | a :: r => Forall_cons a (expr_ind' a) (go r) end) args)
  end.
End Ind.

Definition ok (pk : env) (e : expr) := forall st,
  run pk st (compile e) = match eval pk e with inl v => inl (v :: st) | inr ex => inr ex end.

Lemma args_ok pk args : Forall (ok pk) args -> forall st,
  run pk st (flat_map compile args) =
  match evals pk args with inl vs => inl (rev vs ++ st) | inr ex => inr ex end.
Proof.
  induction 1 as [|a r Ha _ IH]; intros st; cbn [flat_map evals run rev app]; auto.
  rewrite run_app, Ha. destruct (eval pk a) as [y|ex]; auto.
  rewrite IH. destruct (evals pk r) as [ys|ex]; auto.
  cbn [rev]. rewrite <- app_assoc. reflexivity.
Qed.

Lemma evals_len pk args vs : evals pk args = inl vs -> length vs = length args.
Proof.
  revert vs; induction args as [|a r IH]; intros vs; cbn [evals].
  - intros [= <-]; auto.
  - destruct (eval pk a); [|discriminate]. destruct (evals pk r); [|discriminate].
    intros [= <-]. cbn. f_equal. auto.
Qed.

Theorem compile_correct pk e : ok pk e.
Proof.
  induction e using expr_ind'; intros st.
  - reflexivity.
  - cbn. destruct (lookup pk f); reflexivity.
  - cbn [compile eval]. rewrite run_app, IHe. destruct (eval pk e); auto.
    cbn. destruct (op1 c v); auto.
  - cbn [compile eval]. rewrite run_app, IHe1. destruct (eval pk e1); auto.
    rewrite run_app, IHe2. destruct (eval pk e2); auto.
    cbn. destruct (op2 c v v0); auto.
  - rewrite eval_naryl. cbn [compile]. rewrite run_app, IHe. destruct (eval pk e) as [x|]; auto.
    rewrite run_app, args_ok by assumption.
    destruct (evals pk args) as [ys|] eqn:Hys; auto.
    cbn [run step]. rewrite <- (evals_len _ _ _ Hys), <- rev_length.
    rewrite firstn_app, Nat.sub_diag, firstn_all, skipn_app, Nat.sub_diag, skipn_all. cbn [firstn skipn app].
    rewrite app_nil_r, rev_involutive. cbn. destruct (op2 c x (mk_tuple ys)); auto.
  - assert (HE : eval pk (NaryD c e keys args) =
      match eval pk e with inr ex => inr ex | inl x =>
      match evals pk args with inr ex => inr ex | inl ys => op2 c x (mk_dict keys ys) end end).
    { cbn [eval]. destruct (eval pk e); auto.
      match goal with |- match ?a with _ => _ end = match ?b with _ => _ end => replace a with b; auto end.
      clear. induction args as [|a r IH]; cbn [evals]; auto. destruct (eval pk a); auto. rewrite IH. reflexivity. }
    rewrite HE. cbn [compile]. rewrite run_app, IHe. destruct (eval pk e) as [x|]; auto.
    rewrite run_app, args_ok by assumption.
    destruct (evals pk args) as [ys|] eqn:Hys; auto.
    cbn [run step]. rewrite <- (evals_len _ _ _ Hys), <- rev_length.
    rewrite firstn_app, Nat.sub_diag, firstn_all, skipn_app, Nat.sub_diag, skipn_all. cbn [firstn skipn app].
    rewrite app_nil_r, rev_involutive. cbn. destruct (op2 c x (mk_dict keys ys)); auto.
Qed.
End Expr.

