(* Kernel/IntCodec.v -- model of bisturi.field.Int: endianness resolution (Int._compile), decode
   (struct.unpack / int.from_bytes, with the length check of the D1 fix) and encode (struct.pack /
   int.to_bytes).  Both python code paths are modelled by this one codec: that they agree with it
   is exactly what the correspondence check (Tie B) establishes.  Definitions only. *)
From Coq Require Import ZArith List Bool Lia.
From Bisturi Require Import Base.Bytes.
Import ListNotations.
Open Scope Z_scope.

(* ---- endianness: Int(endianness=...) and __bisturi__['endianness'] are arbitrary python strings ---- *)
Inductive endian := EBig | ELittle | ENetwork | ELocal | EOther.
(* self.endianness = bisturi_conf.get('endianness', 'big') when the field gives None *)
Definition resolve_endianness (field_e cls_e : option endian) : endian :=
  match field_e with
  | Some e => e
  | None => match cls_e with Some e => e | None => EBig end
  end.
(* (endianness in ('big','network')) or (endianness == 'local' and sys.byteorder == 'big') *)
Definition is_bigendian (e : endian) (host_big : bool) : bool :=
  match e with
  | EBig | ENetwork => true
  | ELocal => host_big
  | _ => false
  end.
(* byte_count in (1, 2, 4, 8): the struct path *)
Definition has_struct_code (n : Z) : bool := (n =? 1) || (n =? 2) || (n =? 4) || (n =? 8).

(* ---- positional value ---- *)
Fixpoint be_val (acc : Z) (bs : bytes) : Z :=
  match bs with
  | [] => acc
  | b :: r => be_val (acc * 256 + b) r
  end.
Fixpoint be_enc (n : nat) (v : Z) : bytes :=       (* the n low bytes of v, most significant first *)
  match n with
  | O => []
  | S k => be_enc k (v / 256) ++ [v mod 256]
  end.
Definition unsigned_val (big : bool) (bs : bytes) : Z := be_val 0 (if big then bs else rev bs).

Definition int_lo (n : Z) (signed : bool) : Z := if signed then - 2 ^ (8 * n - 1) else 0.
Definition int_hi (n : Z) (signed : bool) : Z := if signed then 2 ^ (8 * n - 1) else 2 ^ (8 * n).

(* decode exactly n bytes; None = the field raises (short slice) *)
Definition decode (n : Z) (signed big : bool) (bs : bytes) : option Z :=
  if blen bs =? n then
    let u := unsigned_val big bs in
    Some (if signed && (2 ^ (8 * n - 1) <=? u) then u - 2 ^ (8 * n) else u)
  else None.

(* encode an integer into exactly n bytes; None = struct.error / OverflowError *)
Definition encode (n : Z) (signed big : bool) (v : Z) : option bytes :=
  if (int_lo n signed <=? v) && (v <? int_hi n signed) then
    let be := be_enc (Z.to_nat n) (v mod 2 ^ (8 * n)) in
    Some (if big then be else rev be)
  else None.

(* the unpack step of an Int field at a cursor: slice, decode, advance *)
Definition int_unpack (n : Z) (signed big : bool) (raw : bytes) (offset : Z) : option (Z * Z) :=
  match decode n signed big (slice raw offset (offset + n)) with
  | Some v => Some (v, offset + n)
  | None => None
  end.
