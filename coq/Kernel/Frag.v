(* Kernel/Frag.v -- hand-written model of bisturi/fragments.py (class Fragments), as repaired by the
   "fix:" commit for D3.  Only definitions live here (so that the model still runs when a proof
   breaks); the theorems are in Proofs/FragProofs.v and Properties/C11.v.

   Modelling decisions:
   - the dict `fragments` together with `sorted(self.fragments.items())` is an association list kept
     sorted by key, with distinct keys (dict_set / dict_setdefault maintain this);
   - `begin_of_fragments` is a python list; bisect_right on it is "count of leading elements <= x",
     which is bisect_right on a sorted list (sortedness is part of the invariant);
   - python's negative index begins[-1] is modelled literally (py_nth);
   - a KeyError / IndexError is the third outcome Crash, excluded under the invariant by a theorem. *)
From Coq Require Import ZArith List Bool Lia.
From Bisturi Require Import Base.Bytes.
Import ListNotations.
Open Scope Z_scope.

Record frs := { frags : list (Z * bytes); begins : list Z; cur : Z }.
Definition empty : frs := {| frags := []; begins := []; cur := 0 |}.

Fixpoint dict_set (d : list (Z * bytes)) (k : Z) (v : bytes) : list (Z * bytes) :=
  match d with
  | [] => [(k, v)]
  | (k', v') :: r =>
      if k <? k' then (k, v) :: d
      else if k =? k' then (k, v) :: r
      else (k', v') :: dict_set r k v
  end.
Fixpoint dict_get (d : list (Z * bytes)) (k : Z) : option bytes :=
  match d with
  | [] => None
  | (k', v') :: r => if k =? k' then Some v' else dict_get r k
  end.
(* d.setdefault(k, v): insert only when the key is absent *)
Definition dict_setdefault (d : list (Z * bytes)) (k : Z) (v : bytes) : list (Z * bytes) :=
  match dict_get d k with Some _ => d | None => dict_set d k v end.

Fixpoint bisect_right (l : list Z) (x : Z) : Z :=
  match l with
  | [] => 0
  | b :: r => if b <=? x then 1 + bisect_right r x else 0
  end.
Definition py_nth (l : list Z) (i : Z) : option Z :=
  let n := Z.of_nat (length l) in
  let j := if i <? 0 then i + n else i in
  if (0 <=? j) && (j <? n) then nth_error l (Z.to_nat j) else None.
Fixpoint list_insert (l : list Z) (i : nat) (x : Z) : list Z :=
  match i, l with
  | O, _ => x :: l
  | S i, [] => [x]
  | S i, a :: r => a :: list_insert r i x
  end.

Inductive res := Ok (s : frs) | Collision | Crash.

(* The four decision points of Fragments.insert, as separate definitions: Tie A regenerates exactly
   these from the python source (Gen/FragGen.v) and Bridge/FragBridge.v proves them equal. *)
Definition ins_is_empty (L : Z) : bool := L =? 0.                           (* `not L` *)
Definition ins_index (bisect : Z) : Z := bisect - 1.                        (* bisect_right(...) - 1 *)
Definition ins_hits_prev (b1 e1 position : Z) : bool := (b1 <=? position) && (position <? e1).
Definition ins_has_next (i n : Z) : bool := i + 1 <? n.
Definition ins_hits_next (b2 position L : Z) : bool := b2 <? position + L.
Definition ins_end (b len : Z) : Z := b + len.
Definition ins_slot (i : Z) : Z := i + 1.
Definition ins_new_cur (position L : Z) : Z := position + L.

Definition insert (s : frs) (position : Z) (str : bytes) : res :=
  let L := blen str in
  if ins_is_empty L then
    Ok {| frags := dict_setdefault (frags s) position str; begins := begins s; cur := position |}
  else
  let i := ins_index (bisect_right (begins s) position) in
  let chk :=
    match begins s with
    | [] => Some false
    | _ =>
      match py_nth (begins s) i with None => None | Some b1 =>
      match dict_get (frags s) b1 with None => None | Some s1 =>
        let e1 := ins_end b1 (blen s1) in
        if ins_hits_prev b1 e1 position then Some true
        else if ins_has_next i (Z.of_nat (length (begins s))) then
          match py_nth (begins s) (i + 1) with
          | None => None
          | Some b2 =>
              if ins_hits_next b2 position L
              then match dict_get (frags s) b2 with None => None | Some _ => Some true end
              else Some false
          end
        else Some false
      end end
    end in
  match chk with
  | None => Crash
  | Some true => Collision
  | Some false =>
      Ok {| frags := dict_set (frags s) position str;
            begins := list_insert (begins s) (Z.to_nat (ins_slot i)) position;
            cur := ins_new_cur position L |}
  end.

Definition append (s : frs) (str : bytes) : res := insert s (cur s) str.
Fixpoint extend (s : frs) (strs : list bytes) : res :=
  match strs with
  | [] => Ok s
  | x :: r => match insert s (cur s) x with Ok s' => extend s' r | e => e end
  end.

(* tobytes: fill * (offset - begin) is empty for a non-positive count (Z.to_nat clips). *)
Definition tb_gap (offset begin : Z) : Z := offset - begin.
Definition tb_next (begin offset len : Z) : Z := Z.max begin (offset + len).
Fixpoint walk (fill : Z) (begin : Z) (d : list (Z * bytes)) : bytes :=
  match d with
  | [] => []
  | (o, s) :: r => repeat fill (Z.to_nat (tb_gap o begin)) ++ s ++ walk fill (tb_next begin o (blen s)) r
  end.
Definition tobytes (s : frs) : bytes := walk FILL 0 (frags s).

(* ---- operation histories (what Tie B replays) ---- *)
Inductive op := OInsert (p : Z) (b : bytes) | OAppend (b : bytes) | OExtend (bs : list bytes) | OSetCur (p : Z).
Definition apply_op (s : frs) (o : op) : res :=
  match o with
  | OInsert p b => insert s p b
  | OAppend b => append s b
  | OExtend bs => extend s bs
  | OSetCur p => Ok {| frags := frags s; begins := begins s; cur := p |}
  end.
(* run a history; the index of the first failing operation is reported *)
Fixpoint run_ops (s : frs) (ops : list op) (k : Z) : res * Z :=
  match ops with
  | [] => (Ok s, k)
  | o :: r => match apply_op s o with Ok s' => run_ops s' r (k + 1) | e => (e, k) end
  end.

(* ---- abstraction: a sparse byte array and its extent ---- *)
Fixpoint cell (d : list (Z * bytes)) (p : Z) : option Z :=
  match d with
  | [] => None
  | (o, s) :: r =>
      if (o <=? p) && (p <? o + blen s) then nth_error s (Z.to_nat (p - o)) else cell r p
  end.
Fixpoint extent (d : list (Z * bytes)) : Z :=
  match d with
  | [] => 0
  | (o, s) :: r => Z.max (o + blen s) (extent r)
  end.

(* ---- the specification: a sparse byte array (association list position -> byte, newest first),
        the extent (largest end position ever inserted) and the cursor ---- *)
Record afrs := { acells : list (Z * Z); aext : Z; acur : Z }.
Definition aempty : afrs := {| acells := []; aext := 0; acur := 0 |}.
Fixpoint a_get (c : list (Z * Z)) (q : Z) : option Z :=
  match c with
  | [] => None
  | (k, v) :: r => if q =? k then Some v else a_get r q
  end.
Definition positions (p : Z) (n : nat) : list Z := map (fun i => p + Z.of_nat i) (seq 0 n).
Definition a_occupied (c : list (Z * Z)) (q : Z) : bool :=
  match a_get c q with Some _ => true | None => false end.
(* None = the insert raises *)
Definition a_insert (a : afrs) (p : Z) (b : bytes) : option afrs :=
  if existsb (a_occupied (acells a)) (positions p (length b)) then None
  else Some {| acells := combine (positions p (length b)) b ++ acells a;
               aext := Z.max (aext a) (p + blen b);
               acur := p + blen b |}.
Fixpoint a_extend (a : afrs) (strs : list bytes) : option afrs :=
  match strs with
  | [] => Some a
  | x :: r => match a_insert a (acur a) x with Some a' => a_extend a' r | None => None end
  end.
Definition a_apply (a : afrs) (o : op) : option afrs :=
  match o with
  | OInsert p b => a_insert a p b
  | OAppend b => a_insert a (acur a) b
  | OExtend bs => a_extend a bs
  | OSetCur p => Some {| acells := acells a; aext := aext a; acur := p |}
  end.
Definition a_tobytes (a : afrs) : bytes :=
  map (fun q => match a_get (acells a) q with Some b => b | None => FILL end)
      (positions 0 (Z.to_nat (aext a))).
