(* Kernel/BitsK.v -- model of bisturi.field.Bits: the compile step that assigns shift and mask to
   each member of a run (walking the run backwards), and the per-member unpack / pack expressions.
   Python integers are unbounded two's complement, as Coq's Z with Z.land/Z.lor/Z.lnot/Z.shiftl.
   Definitions only. *)
From Coq Require Import ZArith List Bool Lia.
From Bisturi Require Import Base.Bytes.
Import ListNotations.
Open Scope Z_scope.

Definition mask_of (w s : Z) : Z := Z.shiftl (2 ^ w - 1) s.          (* ((2**w) - 1) << s *)
Definition bits_get (I mask shift : Z) : Z := Z.shiftr (Z.land I mask) shift.   (* (I & mask) >> shift *)
Definition bits_put (I v mask shift : Z) : Z :=                        (* ((v << s) & mask) | (I & ~mask) *)
  Z.lor (Z.land (Z.shiftl v shift) mask) (Z.land I (Z.lnot mask)).

(* walking reversed(members): returns the (shift, mask) of each member in declaration order and the
   cumulated width *)
Fixpoint assign_rev (ws_rev : list Z) (cumshift : Z) : list (Z * Z) * Z :=
  match ws_rev with
  | [] => ([], cumshift)
  | w :: r =>
      let '(l, total) := assign_rev r (cumshift + w) in
      (l ++ [(cumshift, mask_of w cumshift)], total)
  end.
(* None = ByteBoundaryError at class definition; otherwise the members' (shift, mask) and the byte
   count of the shared integer *)
Definition bits_compile (ws : list Z) : option (list (Z * Z) * Z) :=
  let '(l, total) := assign_rev (rev ws) 0 in
  if total mod 8 =? 0 then Some (l, total / 8) else None.

Definition bits_unpack_all (I : Z) (sm : list (Z * Z)) : list Z :=
  map (fun '(s, m) => bits_get I m s) sm.
(* members packed first to last, each rewriting the shared integer *)
Fixpoint bits_pack_all (I : Z) (sm : list (Z * Z)) (vs : list Z) : Z :=
  match sm, vs with
  | (s, m) :: sr, v :: vr => bits_pack_all (bits_put I v m s) sr vr
  | _, _ => I
  end.
