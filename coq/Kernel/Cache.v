(* Kernel/Cache.v -- the generated-code cache protocol of bisturi/codegen.py (CodeGenerator.generate_code, as
   repaired by the D7 fix): what `define` does with the shared cache file and the interpreter's bytecode cache,
   as a small-step program per process, interleaved arbitrarily with other processes defining same-named classes
   in the same directory, with crashes and adversarial time stamps.

   Abstractions:
   - D is the generated code of a declaration (import + pack + unpack text).  The cookie is a hash of it; that
     equal cookies mean equal code is the Section hypothesis `same_cookie_same_code` (sha1 collision freedom).
   - an artefact on disk is `Whole d` (a module bisturi wrote completely for d: its LAST line is d's cookie) or
     `Partial` (a torn file, e.g. left by a crash of the pre-fix in-place writer: it has no cookie line under the
     name the current layout uses -- the old writer put the cookie FIRST, under another name (fix D17) --; loading
     it raises or yields a module without our cookie: both count as "no matching module").
   - the bytecode cache holds (the stamp of the source it was compiled from, the compiled artefact); the
     interpreter uses it instead of the source exactly when the stamps are equal.  Stamps (mtime, size) are
     chosen adversarially, so a stale bytecode file with an equal stamp is covered.
   Definitions and the (short) proofs live together here: the protocol is safe by construction once the cookie
   is verified AFTER the reload and the own source is the fallback; the theorems make that precise. *)
From Coq Require Import ZArith List Bool Lia.
Import ListNotations.

Section Cache.
Variable D : Type.
Variable same_cookie : D -> D -> bool.                 (* cookie d1 == cookie d2 *)
Hypothesis same_cookie_same_code : forall a b, same_cookie a b = true -> a = b.
Hypothesis same_cookie_refl : forall a, same_cookie a a = true.

Inductive art := Whole (d : D) | Partial.
Record fs := { src : option (nat * art); pyc : option (nat * art) }.

(* SourceFileLoader.load_module: the bytecode when its recorded stamp equals the source's, else the source
   (and then, when bytecode writing is on, the bytecode cache is refreshed) *)
Definition load (bytecode_on : bool) (s : fs) : option art * fs :=
  match src s with
  | None => (None, s)
  | Some (st, a) =>
      match pyc s with
      | Some (st', a') =>
          if Nat.eqb st st' then (Some a', s)
          else (Some a, if bytecode_on then {| src := src s; pyc := Some (st, a) |} else s)
      | None => (Some a, if bytecode_on then {| src := src s; pyc := Some (st, a) |} else s)
      end
  end.

(* does a loaded module carry our cookie? *)
Definition matches (own : D) (m : option art) : bool :=
  match m with Some (Whole d) => same_cookie d own | _ => false end.
Definition code_of (own : D) (m : option art) : D :=
  match m with Some (Whole d) => d | _ => own end.

(* ---- one process, small steps ---- *)
Inductive pc :=
| PStart                       (* before os.path.exists / the first load *)
| PLoaded (m : option art)     (* first load done *)
| PRemoved                     (* stale bytecode looked for (and possibly removed) *)
| PWritten                     (* private temporary file written *)
| PReplaced                    (* os.replace done *)
| PReloaded (m : option art)   (* second load done *)
| PInstalled (d : D)           (* pack_impl / unpack_impl installed on the class *)
| PCrashed.
Record proc := { own : D; at_pc : pc }.
Record world := { disk : fs; procs : list proc }.

(* what process p may do next; the file system is shared.  remove_it / stamp / bytecode_on are chosen by the
   environment (adversarially). *)
Inductive pstep (p : proc) (s : fs) : proc -> fs -> Prop :=
| SLoad : forall bytecode_on,
    at_pc p = PStart ->
    pstep p s {| own := own p; at_pc := PLoaded (fst (load bytecode_on s)) |} (snd (load bytecode_on s))
| SHit : forall m,
    at_pc p = PLoaded m -> matches (own p) m = true ->
    pstep p s {| own := own p; at_pc := PInstalled (code_of (own p) m) |} s
| SMiss : forall m (remove_it : bool),
    at_pc p = PLoaded m -> matches (own p) m = false ->
    pstep p s {| own := own p; at_pc := PRemoved |} (if remove_it then {| src := src s; pyc := None |} else s)
| SWriteTmp :
    at_pc p = PRemoved -> pstep p s {| own := own p; at_pc := PWritten |} s
| SReplace : forall stamp,
    at_pc p = PWritten ->
    pstep p s {| own := own p; at_pc := PReplaced |} {| src := Some (stamp, Whole (own p)); pyc := pyc s |}
| SReload : forall bytecode_on,
    at_pc p = PReplaced ->
    pstep p s {| own := own p; at_pc := PReloaded (fst (load bytecode_on s)) |} (snd (load bytecode_on s))
| SVerify : forall m,
    (* the cookie is checked again; on a mismatch the own source is compiled in memory *)
    at_pc p = PReloaded m ->
    pstep p s {| own := own p; at_pc := PInstalled (if matches (own p) m then code_of (own p) m else own p) |} s
| SCrash :
    (* a process may die between any two steps (a torn temporary file is private and never loaded) *)
    pstep p s {| own := own p; at_pc := PCrashed |} s.

Fixpoint replace_nth (l : list proc) (i : nat) (q : proc) : list proc :=
  match l, i with
  | [], _ => []
  | _ :: r, O => q :: r
  | a :: r, S k => a :: replace_nth r k q
  end.
(* any process moves next; a new process may also appear at any time (another definition starts) *)
Inductive wstep : world -> world -> Prop :=
| WStep : forall w i p q s', nth_error (procs w) i = Some p -> pstep p (disk w) q s' ->
    wstep w {| disk := s'; procs := replace_nth (procs w) i q |}
| WSpawn : forall w d, wstep w {| disk := disk w; procs := procs w ++ [{| own := d; at_pc := PStart |}] |}.
Inductive wsteps : world -> world -> Prop :=
| WRefl : forall w, wsteps w w
| WTrans : forall a b c, wsteps a b -> wstep b c -> wsteps a c.

(* ---- safety ---- *)
Definition proc_ok (p : proc) : Prop := forall d, at_pc p = PInstalled d -> d = own p.
Definition world_ok (w : world) : Prop := Forall proc_ok (procs w).

Lemma matches_code : forall o m, matches o m = true -> code_of o m = o.
Proof.
  intros o m H. destruct m as [[d|]|]; cbn in *; try discriminate. apply same_cookie_same_code. exact H.
Qed.

Lemma pstep_ok : forall p s q s', proc_ok p -> pstep p s q s' -> proc_ok q.
Proof.
  intros p s q s' Hp H. unfold proc_ok in *.
  inversion H; subst; cbn; intros d0 E; try discriminate.
  - injection E as <-. apply matches_code. assumption.
  - injection E as <-. destruct (matches (own p) m) eqn:M; [apply matches_code; exact M|reflexivity].
Qed.

Lemma replace_nth_ok : forall l i q, Forall proc_ok l -> proc_ok q -> Forall proc_ok (replace_nth l i q).
Proof.
  induction l as [|a r IH]; intros i q Hl Hq; cbn; [constructor|].
  inversion Hl as [|? ? Ha Hr]; subst. destruct i; constructor; auto.
Qed.

Lemma wstep_ok : forall a b, world_ok a -> wstep a b -> world_ok b.
Proof.
  intros a b Ha H. unfold world_ok in *. inversion H; subst; cbn.
  - apply replace_nth_ok; [exact Ha|].
    eapply pstep_ok; [|eassumption].
    rewrite Forall_forall in Ha. apply Ha. eapply nth_error_In; eassumption.
  - apply Forall_app. split; [exact Ha|]. constructor; [|constructor].
    unfold proc_ok; cbn; intros d0 E; discriminate.
Qed.

(* every process that ever installs code, under every interleaving of the file-system steps of any number of
   processes, every crash, every choice of stamps and of bytecode caching, from ANY initial disk content (torn
   files and modules of other declarations included), installs the code of its OWN declaration *)
Theorem cache_safe : forall w0 w, world_ok w0 -> wsteps w0 w -> world_ok w.
Proof. intros w0 w H0 H. induction H as [|a b c _ IH Hs]; [assumption|]. eapply wstep_ok; [apply IH; assumption|eassumption]. Qed.

Corollary cache_safe_from_scratch : forall s w, wsteps {| disk := s; procs := [] |} w ->
  forall p d, In p (procs w) -> at_pc p = PInstalled d -> d = own p.
Proof.
  intros s w H p d Hin E. assert (world_ok w) as Hw by (eapply cache_safe; [|exact H]; constructor).
  unfold world_ok in Hw. rewrite Forall_forall in Hw. exact (Hw p Hin d E).
Qed.

(* progress: a process that is not crashed and has not installed can always take a step that is not a crash
   (it never gets stuck on what the disk holds: no load failure is fatal) *)
Theorem cache_progress : forall p s, (forall d, at_pc p <> PInstalled d) -> at_pc p <> PCrashed ->
  exists q s', pstep p s q s' /\ at_pc q <> PCrashed.
Proof.
  intros p s Hni Hnc. destruct (at_pc p) as [|m| | | |m|d|] eqn:E.
  - eexists _, _. split; [apply (SLoad p s false E)|cbn; discriminate].
  - destruct (matches (own p) m) eqn:M.
    + eexists _, _. split; [apply (SHit p s m E M)|cbn; discriminate].
    + eexists _, _. split; [apply (SMiss p s m false E M)|cbn; discriminate].
  - eexists _, _. split; [apply (SWriteTmp p s E)|cbn; discriminate].
  - eexists _, _. split; [apply (SReplace p s 0 E)|cbn; discriminate].
  - eexists _, _. split; [apply (SReload p s false E)|cbn; discriminate].
  - eexists _, _. split; [apply (SVerify p s m E)|cbn; discriminate].
  - exfalso. exact (Hni d eq_refl).
  - exfalso. exact (Hnc eq_refl).
Qed.

(* a cache hit changes nothing on disk *)
Theorem cache_hit_pure : forall p s m q s', at_pc p = PLoaded m -> matches (own p) m = true ->
  pstep p s q s' -> at_pc q <> PCrashed -> s' = s /\ at_pc q = PInstalled (own p).
Proof.
  intros p s m q s' E M H Hnc.
  inversion H as [b E1|m1 E1 M1|m1 r E1 M1|E1|st E1|b E1|m1 E1|]; subst; cbn in *.
  all: try (rewrite E in E1; discriminate E1).
  all: try (exfalso; apply Hnc; reflexivity).
  - rewrite E in E1. injection E1 as <-. split; [reflexivity|]. f_equal. apply matches_code. assumption.
  - rewrite E in E1. injection E1 as <-. rewrite M in M1. discriminate M1.
Qed.

(* the executable single-process version (no interference between its steps): used by the correspondence check *)
Definition define (bytecode_on remove_it : bool) (stamp : nat) (d : D) (s : fs) : D * fs :=
  let '(m, s1) := load bytecode_on s in
  if matches d m then (code_of d m, s1)
  else
    let s2 := if remove_it then {| src := src s1; pyc := None |} else s1 in
    let s3 := {| src := Some (stamp, Whole d); pyc := pyc s2 |} in
    let '(m', s4) := load bytecode_on s3 in
    ((if matches d m' then code_of d m' else d), s4).
Theorem define_installs_own : forall b r st d s, fst (define b r st d s) = d.
Proof.
  intros b r st d s. unfold define. destruct (load b s) as [m s1].
  destruct (matches d m) eqn:M; cbn [fst]; [apply matches_code; exact M|].
  destruct (load b _) as [m' s4]. cbn [fst]. destruct (matches d m') eqn:M'; [apply matches_code; exact M'|reflexivity].
Qed.
End Cache.

(* ---- the pre-fix protocol, for contrast: written in place in four steps, reloaded without verification ---- *)
Section Legacy.
Variable D : Type.
(* after the cookie line is on disk (second of four writes) a crash leaves a file WITH the cookie but WITHOUT
   the code: the next definition of the same declaration accepts it and installs nothing usable *)
Inductive lart := LWhole (d : D) | LCookieOnly (d : D) | LPartial.
Definition legacy_hit (same_cookie : D -> D -> bool) (own : D) (a : lart) : bool :=
  match a with LWhole d | LCookieOnly d => same_cookie d own | LPartial => false end.
Definition legacy_usable (a : lart) : bool := match a with LWhole _ => true | _ => false end.
Theorem legacy_refuted_torn : forall (same_cookie : D -> D -> bool) (d : D), same_cookie d d = true ->
  exists a, legacy_hit same_cookie d a = true /\ legacy_usable a = false.
Proof. intros sc d H. exists (LCookieOnly d). split; [exact H|reflexivity]. Qed.
End Legacy.
