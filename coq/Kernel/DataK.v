(* Kernel/DataK.v -- model of bisturi.field.Data: the three sizing modes of unpack and pack.
   - sized: byte_count given by a constant / an earlier field / an expression / a callable (all end up
     as an integer here); exactly that many bytes or an error;
   - marker: bytes.find of a literal marker inside the search window;
   - regex: re.search of a regular expression of the closed class `alternatives of (literal | byte+)`
     inside the search window, and the `$` shortcut (read to the end, window ignored).
   Definitions only. *)
From Coq Require Import ZArith List Bool Lia.
From Bisturi Require Import Base.Bytes.
Import ListNotations.
Open Scope Z_scope.

(* ---- sized ---- *)
Definition data_next (offset bc : Z) : Z := offset + bc.
Definition data_short (len bc : Z) : bool := negb (len =? bc).     (* len(chunk) != byte_count *)
(* value and new cursor; None = raises.  A negative count can never equal a length. *)
Definition data_sized (raw : bytes) (offset bc : Z) : option (bytes * Z) :=
  let next_offset := data_next offset bc in
  let chunk := slice raw offset next_offset in
  if data_short (blen chunk) bc then None else Some (chunk, next_offset).

(* ---- bytes.find ---- *)
Fixpoint is_prefix (needle hay : bytes) : bool :=
  match needle, hay with
  | [], _ => true
  | _ :: _, [] => false
  | a :: n', b :: h' => (a =? b) && is_prefix n' h'
  end.
(* least index at which needle occurs wholly inside hay; None = -1 *)
Fixpoint find_from (needle hay : bytes) (i : Z) : option Z :=
  if is_prefix needle hay then Some i
  else match hay with
       | [] => None
       | _ :: h' => find_from needle h' (i + 1)
       end.
Definition find (hay needle : bytes) : option Z := find_from needle hay 0.

(* search window: raw[offset:offset+sbl] when search_buffer_length is a non-zero number, else raw[offset:] *)
Definition window (raw : bytes) (offset : Z) (sbl : option Z) : bytes :=
  match sbl with
  | Some l => if l =? 0 then slice_from raw offset else slice raw offset (offset + l)
  | None => slice_from raw offset
  end.

Definition marker_count (count mlen : Z) (include : bool) : Z := if include then count + mlen else count.
Definition marker_extra (mlen : Z) (include : bool) : Z := if include then 0 else mlen.
(* value, new cursor; None = the assert fails *)
Definition data_marker (raw : bytes) (offset : Z) (sbl : option Z) (marker : bytes) (include : bool)
  : option (bytes * Z) :=
  match find (window raw offset sbl) marker with
  | None => None
  | Some c =>
      let count := marker_count c (blen marker) include in
      let next_offset := offset + count in
      Some (slice raw offset next_offset, next_offset + marker_extra (blen marker) include)
  end.

(* ---- the closed regex class ---- *)
Inductive alt := ALit (b : bytes) | APlus (c : Z).        (* a literal string | one byte repeated (c+) *)
Definition regex := list alt.                              (* a1|a2|... , first alternative wins *)
Fixpoint count_run (c : Z) (hay : bytes) : Z :=
  match hay with
  | b :: h' => if b =? c then 1 + count_run c h' else 0
  | [] => 0
  end.
(* length matched by alternative a at the start of hay (greedy for c+) *)
Definition match_alt (a : alt) (hay : bytes) : option Z :=
  match a with
  | ALit b => if is_prefix b hay then Some (blen b) else None
  | APlus c => let n := count_run c hay in if 0 <? n then Some n else None
  end.
Fixpoint match_here (r : regex) (hay : bytes) : option Z :=
  match r with
  | [] => None
  | a :: r' => match match_alt a hay with Some n => Some n | None => match_here r' hay end
  end.
(* re.search: leftmost start, then first alternative; returns (start, end) *)
Fixpoint search_from (r : regex) (hay : bytes) (i : Z) : option (Z * Z) :=
  match match_here r hay with
  | Some n => Some (i, i + n)
  | None => match hay with
            | [] => None
            | _ :: h' => search_from r h' (i + 1)
            end
  end.
Definition re_search (r : regex) (hay : bytes) : option (Z * Z) := search_from r hay 0.

(* value, new cursor, matched delimiter (remembered for pack when it is not kept) *)
Definition data_regex (raw : bytes) (offset : Z) (sbl : option Z) (r : regex) (include : bool)
  : option (bytes * Z * bytes) :=
  match re_search r (window raw offset sbl) with
  | None => None
  | Some (st, en) =>
      if include then Some (slice raw offset (offset + en), offset + en, [])
      else Some (slice raw offset (offset + st), offset + en, slice raw (offset + st) (offset + en))
  end.
(* until_marker = re.compile(b"$"): count = len(raw) - offset, the window is ignored *)
Definition data_eos (raw : bytes) (offset : Z) : bytes * Z :=
  let count := blen raw - offset in
  (slice raw offset (offset + count), offset + count).

(* ---- pack: value + delimiter_to_be_included ---- *)
Definition data_pack (value delimiter : bytes) : bytes := value ++ delimiter.
