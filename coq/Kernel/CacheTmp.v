(* Kernel/CacheTmp.v -- Kernel/Cache.v refined with the private temporary file and the process ids.

   bisturi/codegen.py writes the generated module to "<module>.py.<pid>.tmp", opened with mode 'w' (create OR
   TRUNCATE), and then os.replace()s that file into place.  Kernel/Cache.v abstracts the temporary file away (its
   step SWriteTmp changes nothing and SReplace writes `Whole own` out of thin air).  Here the temporary files are
   part of the disk (`tmps`: pid |-> content, `Partial` = half written) and every process has a pid; pids are
   RECYCLED: a new process may get the pid of any process that is dead (crashed) or done (installed).  A process
   that dies between opening its temporary file and the rename leaves the file behind, whole or torn, and a later
   process with the same pid finds it.

   Results (all for worlds reachable from a world without processes, over ANY initial disk -- any leftovers):
   - tmp_invariant      : a process at PWritten owns tmps[pid] = Whole own; running processes have distinct pids;
   - refines            : erasing pids and temporary files maps every run to a run of Kernel/Cache.v, hence
   - cache_tmp_safe     : whoever installs, installs the code of its own declaration;
   - cache_tmp_progress : a process that is neither crashed nor done always has a non-crash step, whatever
                          temporary files (its own pid's included) are on disk: mode 'w' just overwrites them;
   - exclusive_create_stuck : with mode 'x' (exclusive creation; a plausible "hardening") a leftover under a
                          recycled pid blocks the new process at PRemoved for ever: only crash steps remain.

   The step relations are parametrised by `excl : bool` (false = mode 'w', the code; true = mode 'x', the
   regression) so that pstep2x IS pstep2 up to the guard of the two steps that open the temporary file. *)
From Coq Require Import ZArith List Bool Lia.
From Bisturi Require Import Kernel.Cache.
Import ListNotations.

Section CacheTmp.
Variable D : Type.
Variable same_cookie : D -> D -> bool.                 (* cookie d1 == cookie d2 *)
Hypothesis same_cookie_same_code : forall a b, same_cookie a b = true -> a = b.
Hypothesis same_cookie_refl : forall a, same_cookie a a = true.

(* the parameter D of what Kernel/Cache.v defines is left implicit in this file only *)
Local Arguments Whole {D} d.
Local Arguments Partial {D}.
Local Arguments src {D} f.
Local Arguments pyc {D} f.
Local Arguments load {D} bytecode_on s.
Local Arguments matches {D} same_cookie own m.
Local Arguments code_of {D} own m.
Local Arguments PStart {D}.
Local Arguments PLoaded {D} m.
Local Arguments PRemoved {D}.
Local Arguments PWritten {D}.
Local Arguments PReplaced {D}.
Local Arguments PReloaded {D} m.
Local Arguments PInstalled {D} d.
Local Arguments PCrashed {D}.
Local Arguments own {D} p.
Local Arguments at_pc {D} p.
Local Arguments disk {D} w.
Local Arguments procs {D} w.
Local Arguments replace_nth {D} l i q.

(* ---- the disk with temporary files ---- *)
Record fs2 := { base : fs D;                       (* the shared module file and its bytecode cache *)
                tmps : list (nat * art D) }.       (* "<module>.py.<pid>.tmp": pid |-> content *)

Fixpoint tmp_get (l : list (nat * art D)) (n : nat) : option (art D) :=
  match l with
  | [] => None
  | (k, a) :: r => if Nat.eqb k n then Some a else tmp_get r n
  end.
Fixpoint tmp_del (l : list (nat * art D)) (n : nat) : list (nat * art D) :=
  match l with
  | [] => []
  | (k, a) :: r => if Nat.eqb k n then tmp_del r n else (k, a) :: tmp_del r n
  end.
Definition tmp_set (l : list (nat * art D)) (n : nat) (a : art D) : list (nat * art D) := (n, a) :: tmp_del l n.
Local Arguments tmp_set : simpl never.

Lemma tmp_get_del : forall l n m, tmp_get (tmp_del l n) m = if Nat.eqb n m then None else tmp_get l m.
Proof.
  induction l as [|[k a] r IH]; intros n m; cbn.
  - destruct (Nat.eqb n m); reflexivity.
  - destruct (Nat.eqb k n) eqn:Ekn.
    + rewrite IH. apply Nat.eqb_eq in Ekn. subst k. destruct (Nat.eqb n m); reflexivity.
    + cbn. rewrite IH. destruct (Nat.eqb k m) eqn:Ekm; [|reflexivity].
      apply Nat.eqb_eq in Ekm. subst k. rewrite Nat.eqb_sym, Ekn. reflexivity.
Qed.
Lemma tmp_get_set : forall l n a m, tmp_get (tmp_set l n a) m = if Nat.eqb n m then Some a else tmp_get l m.
Proof.
  intros l n a m. unfold tmp_set. cbn. rewrite tmp_get_del. destruct (Nat.eqb n m); reflexivity.
Qed.

(* ---- processes with a pid ---- *)
Record proc2 := { pid2 : nat; p_own : D; p_pc : pc D }.
Record world2 := { disk2 : fs2; procs2 : list proc2 }.

(* still running = neither dead nor done; only the pid of such a process is taken *)
Definition running (p : proc2) : bool :=
  match p_pc p with PCrashed | PInstalled _ => false | _ => true end.

(* same own and pid, another program counter *)
Definition goto (p : proc2) (c : pc D) : proc2 := {| pid2 := pid2 p; p_own := p_own p; p_pc := c |}.
(* same temporary files, another shared part *)
Definition on_base (s : fs2) (b : fs D) : fs2 := {| base := b; tmps := tmps s |}.

(* may open(tmp, mode) succeed?  mode 'w' (excl = false): always; mode 'x' (excl = true): only if absent *)
Definition can_open (excl : bool) (s : fs2) (n : nat) : Prop := excl = true -> tmp_get (tmps s) n = None.

(* what process p may do next.  Every step but S2WriteTmp / S2CrashInWrite / S2Replace is the step of the same
   name of Cache.pstep on the shared part and leaves the temporary files alone. *)
Inductive pstep2g (excl : bool) (p : proc2) (s : fs2) : proc2 -> fs2 -> Prop :=
| S2Load : forall bytecode_on,
    p_pc p = PStart ->
    pstep2g excl p s (goto p (PLoaded (fst (load bytecode_on (base s))))) (on_base s (snd (load bytecode_on (base s))))
| S2Hit : forall m,
    p_pc p = PLoaded m -> matches same_cookie (p_own p) m = true ->
    pstep2g excl p s (goto p (PInstalled (code_of (p_own p) m))) s
| S2Miss : forall m (remove_it : bool),
    p_pc p = PLoaded m -> matches same_cookie (p_own p) m = false ->
    pstep2g excl p s (goto p PRemoved)
      (if remove_it then on_base s {| Cache.src := src (base s); Cache.pyc := None |} else s)
| S2WriteTmp :
    (* open(tmp, 'w'), write everything, close: whatever was under this name is gone *)
    p_pc p = PRemoved -> can_open excl s (pid2 p) ->
    pstep2g excl p s (goto p PWritten) {| base := base s; tmps := tmp_set (tmps s) (pid2 p) (Whole (p_own p)) |}
| S2CrashInWrite :
    (* died after open (which truncates) and before close: a torn file stays behind *)
    p_pc p = PRemoved -> can_open excl s (pid2 p) ->
    pstep2g excl p s (goto p PCrashed) {| base := base s; tmps := tmp_set (tmps s) (pid2 p) Partial |}
| S2Replace : forall stamp a,
    (* os.replace(tmp, module): the module becomes what the temporary file holds; the temporary name is gone *)
    p_pc p = PWritten -> tmp_get (tmps s) (pid2 p) = Some a ->
    pstep2g excl p s (goto p PReplaced)
      {| base := {| Cache.src := Some (stamp, a); Cache.pyc := pyc (base s) |}; tmps := tmp_del (tmps s) (pid2 p) |}
| S2Reload : forall bytecode_on,
    p_pc p = PReplaced ->
    pstep2g excl p s (goto p (PReloaded (fst (load bytecode_on (base s))))) (on_base s (snd (load bytecode_on (base s))))
| S2Verify : forall m,
    p_pc p = PReloaded m ->
    pstep2g excl p s
      (goto p (PInstalled (if matches same_cookie (p_own p) m then code_of (p_own p) m else p_own p))) s
| S2Crash :
    (* died between two steps: nothing is cleaned up (at PWritten a complete temporary file stays behind) *)
    pstep2g excl p s (goto p PCrashed) s.

Fixpoint set_nth (l : list proc2) (i : nat) (q : proc2) : list proc2 :=
  match l, i with
  | [], _ => []
  | _ :: r, O => q :: r
  | a :: r, S k => a :: set_nth r k q
  end.

(* any process moves next; a new process may appear at any time, under any pid no RUNNING process has *)
Inductive wstep2g (excl : bool) : world2 -> world2 -> Prop :=
| W2Step : forall w i p q s', nth_error (procs2 w) i = Some p -> pstep2g excl p (disk2 w) q s' ->
    wstep2g excl w {| disk2 := s'; procs2 := set_nth (procs2 w) i q |}
| W2Spawn : forall w n d, (forall p, In p (procs2 w) -> running p = true -> pid2 p <> n) ->
    wstep2g excl w {| disk2 := disk2 w; procs2 := procs2 w ++ [{| pid2 := n; p_own := d; p_pc := PStart |}] |}.
Inductive wsteps2g (excl : bool) : world2 -> world2 -> Prop :=
| W2Refl : forall w, wsteps2g excl w w
| W2Trans : forall a b c, wsteps2g excl a b -> wstep2g excl b c -> wsteps2g excl a c.

(* the code: mode 'w' *)
Definition pstep2 := pstep2g false.
Definition wstep2 := wstep2g false.
Definition wsteps2 := wsteps2g false.
(* the regression: mode 'x' *)
Definition pstep2x := pstep2g true.
Definition wstep2x := wstep2g true.
Definition wsteps2x := wsteps2g true.

(* a world w is REACHABLE when `wsteps2 (init2 s0) w` for some disk s0 -- shared part and temporary files
   arbitrary --: a run leads to it from a world without processes *)
Definition init2 (s0 : fs2) : world2 := {| disk2 := s0; procs2 := [] |}.

(* exclusive creation only removes behaviours *)
Lemma pstep2x_pstep2 : forall p s q s', pstep2x p s q s' -> pstep2 p s q s'.
Proof.
  intros p s q s' H. unfold pstep2x, pstep2 in *.
  assert (forall n, can_open false s n) as Hopen by (intros n Hx; discriminate Hx).
  inversion H as [b E|m E M|m r E M|E C|E C|st a E G|b E|m E|]; subst q s'.
  - exact (S2Load false p s b E).
  - exact (S2Hit false p s m E M).
  - exact (S2Miss false p s m r E M).
  - exact (S2WriteTmp false p s E (Hopen _)).
  - exact (S2CrashInWrite false p s E (Hopen _)).
  - exact (S2Replace false p s st a E G).
  - exact (S2Reload false p s b E).
  - exact (S2Verify false p s m E).
  - exact (S2Crash false p s).
Qed.

(* ---- lists ---- *)
Lemma nth_error_set_nth : forall l i q j p, nth_error l i = Some p ->
  nth_error (set_nth l i q) j = if Nat.eqb i j then Some q else nth_error l j.
Proof.
  induction l as [|a r IH]; intros i q j p H.
  - destruct i; discriminate H.
  - destruct i as [|i]; destruct j as [|j]; cbn in *; try reflexivity.
    apply (IH i q j p H).
Qed.
Lemma map_set_nth : forall (f : proc2 -> proc D) l i q,
  map f (set_nth l i q) = replace_nth (map f l) i (f q).
Proof.
  intros f. induction l as [|a r IH]; intros i q; cbn; [reflexivity|].
  destruct i; cbn; [reflexivity|]. rewrite IH. reflexivity.
Qed.
Lemma nth_error_snoc : forall (l : list proc2) x j r, nth_error (l ++ [x]) j = Some r ->
  nth_error l j = Some r \/ (j = length l /\ r = x).
Proof.
  intros l x j r H. destruct (Nat.lt_ge_cases j (length l)) as [Hlt|Hge].
  - left. rewrite nth_error_app1 in H by exact Hlt. exact H.
  - right. rewrite nth_error_app2 in H by exact Hge.
    destruct (j - length l) as [|k] eqn:E; cbn in H.
    + injection H as <-. split; [lia|reflexivity].
    + destruct k; discriminate H.
Qed.

(* ---- what one step does to pids, to who runs, and to the temporary files ---- *)
Lemma pstep2_pid : forall excl p s q s', pstep2g excl p s q s' -> pid2 q = pid2 p /\ p_own q = p_own p.
Proof. intros excl p s q s' H. inversion H; subst; cbn; split; reflexivity. Qed.

Lemma pstep2_running : forall excl p s q s', pstep2g excl p s q s' -> running q = true -> running p = true.
Proof.
  intros excl p s q s' H. unfold running.
  inversion H as [b E|m E M|m r E M|E C|E C|st a E G|b E|m E|]; subst; cbn;
    try rewrite E; try reflexivity; intro Hq; discriminate Hq.
Qed.

(* a step touches no temporary file but the one of its own pid, and only while the process runs *)
Lemma pstep2_tmps : forall excl p s q s' n, pstep2g excl p s q s' ->
  tmp_get (tmps s') n = tmp_get (tmps s) n \/ (n = pid2 p /\ running p = true).
Proof.
  intros excl p s q s' n H. unfold running.
  inversion H as [b E|m E M|m r E M|E C|E C|st a E G|b E|m E|]; subst; cbn; try (left; reflexivity).
  - left. destruct r; reflexivity.
  - rewrite tmp_get_set. destruct (Nat.eqb (pid2 p) n) eqn:En; [|left; reflexivity].
    right. apply Nat.eqb_eq in En. rewrite E. split; [symmetry; exact En|reflexivity].
  - rewrite tmp_get_set. destruct (Nat.eqb (pid2 p) n) eqn:En; [|left; reflexivity].
    right. apply Nat.eqb_eq in En. rewrite E. split; [symmetry; exact En|reflexivity].
  - rewrite tmp_get_del. destruct (Nat.eqb (pid2 p) n) eqn:En; [|left; reflexivity].
    right. apply Nat.eqb_eq in En. rewrite E. split; [symmetry; exact En|reflexivity].
Qed.

(* PWritten is entered by the write step only, which leaves the complete own module in the temporary file *)
Lemma pstep2_written : forall excl p s q s', pstep2g excl p s q s' -> p_pc q = PWritten ->
  tmp_get (tmps s') (pid2 q) = Some (Whole (p_own q)).
Proof.
  intros excl p s q s' H.
  inversion H as [b E|m E M|m r E M|E C|E C|st a E G|b E|m E|]; subst; cbn; intro Hq; try discriminate Hq.
  rewrite tmp_get_set, Nat.eqb_refl. reflexivity.
Qed.

(* ---- the invariant ---- *)
Definition tmp_inv (w : world2) : Prop :=
  (forall p, In p (procs2 w) -> p_pc p = PWritten ->
     tmp_get (tmps (disk2 w)) (pid2 p) = Some (Whole (p_own p)))
  /\ (forall i j p q, nth_error (procs2 w) i = Some p -> nth_error (procs2 w) j = Some q ->
        running p = true -> running q = true -> pid2 p = pid2 q -> i = j).

Lemma tmp_inv_init : forall s0, tmp_inv (init2 s0).
Proof.
  intro s0. split.
  - intros p Hin. destruct Hin.
  - intros i j p q Hi. destruct i; discriminate Hi.
Qed.

Lemma wstep2_inv : forall excl a b, tmp_inv a -> wstep2g excl a b -> tmp_inv b.
Proof.
  intros excl a b [Hw Hu] H.
  inversion H as [w i p q s' Hi Hs|w n d Hfree]; subst; cbn.
  - (* process i steps from p to q *)
    destruct (pstep2_pid _ _ _ _ _ Hs) as [Hpid Hown].
    split; cbn.
    + intros r Hin Hr. apply In_nth_error in Hin. destruct Hin as [j Hj].
      rewrite (nth_error_set_nth _ _ _ _ _ Hi) in Hj.
      destruct (Nat.eqb i j) eqn:Eij.
      * injection Hj as <-. exact (pstep2_written _ _ _ _ _ Hs Hr).
      * assert (running r = true) as Hrun by (unfold running; rewrite Hr; reflexivity).
        destruct (pstep2_tmps _ _ _ _ _ (pid2 r) Hs) as [Hsame|[Hpr Hprun]].
        -- rewrite Hsame. apply Hw; [eapply nth_error_In; exact Hj|exact Hr].
        -- exfalso. apply Nat.eqb_neq in Eij. apply Eij.
           exact (Hu i j p r Hi Hj Hprun Hrun (eq_sym Hpr)).
    + intros x y px py Hx Hy Rx Ry Hxy.
      rewrite (nth_error_set_nth _ _ _ _ _ Hi) in Hx. rewrite (nth_error_set_nth _ _ _ _ _ Hi) in Hy.
      destruct (Nat.eqb i x) eqn:Eix; destruct (Nat.eqb i y) eqn:Eiy.
      * apply Nat.eqb_eq in Eix. apply Nat.eqb_eq in Eiy. congruence.
      * injection Hx as <-. apply Nat.eqb_eq in Eix. subst x.
        apply (Hu i y p py Hi Hy); [exact (pstep2_running _ _ _ _ _ Hs Rx)|exact Ry|congruence].
      * injection Hy as <-. apply Nat.eqb_eq in Eiy. subst y.
        apply (Hu x i px p Hx Hi); [exact Rx|exact (pstep2_running _ _ _ _ _ Hs Ry)|congruence].
      * exact (Hu x y px py Hx Hy Rx Ry Hxy).
  - (* a new process appears under pid n *)
    split; cbn.
    + intros r Hin Hr. apply in_app_or in Hin. destruct Hin as [Hin|[<-|[]]].
      * exact (Hw r Hin Hr).
      * discriminate Hr.
    + intros x y px py Hx Hy Rx Ry Hxy.
      apply nth_error_snoc in Hx. apply nth_error_snoc in Hy.
      destruct Hx as [Hx|[Hx ->]]; destruct Hy as [Hy|[Hy ->]].
      * exact (Hu x y px py Hx Hy Rx Ry Hxy).
      * exfalso. exact (Hfree px (nth_error_In _ _ Hx) Rx Hxy).
      * exfalso. exact (Hfree py (nth_error_In _ _ Hy) Ry (eq_sym Hxy)).
      * congruence.
Qed.

Lemma wsteps2_inv : forall excl a b, tmp_inv a -> wsteps2g excl a b -> tmp_inv b.
Proof.
  intros excl a b Ha H. induction H as [|a b c _ IH Hs]; [exact Ha|].
  exact (wstep2_inv _ _ _ (IH Ha) Hs).
Qed.

(* in every world reachable from a world without processes -- any disk, any leftover temporary files --: every
   process at PWritten has its complete own module in its temporary file, and no two running processes share a
   pid *)
Theorem tmp_invariant : forall s0 w, wsteps2 (init2 s0) w ->
  (forall p, In p (procs2 w) -> p_pc p = PWritten ->
     tmp_get (tmps (disk2 w)) (pid2 p) = Some (Whole (p_own p)))
  /\ (forall i j p q, nth_error (procs2 w) i = Some p -> nth_error (procs2 w) j = Some q ->
        running p = true -> running q = true -> pid2 p = pid2 q -> i = j).
Proof. intros s0 w H. exact (wsteps2_inv _ _ _ (tmp_inv_init s0) H). Qed.

(* ---- refinement: forget pids and temporary files ---- *)
Definition erase_proc (p : proc2) : proc D := {| Cache.own := p_own p; Cache.at_pc := p_pc p |}.
Definition erase_world (w : world2) : world D :=
  {| Cache.disk := base (disk2 w); Cache.procs := map erase_proc (procs2 w) |}.

(* a step of the refined process is the step of the same name of Cache.pstep (S2CrashInWrite is a crash),
   provided the temporary file holds at PWritten what Cache.v says os.replace installs *)
Lemma pstep2_refines : forall p s q s',
  (p_pc p = PWritten -> tmp_get (tmps s) (pid2 p) = Some (Whole (p_own p))) ->
  pstep2 p s q s' -> pstep D same_cookie (erase_proc p) (base s) (erase_proc q) (base s').
Proof.
  intros p s q s' Hw H. unfold pstep2 in H.
  inversion H as [b E|m E M|m r E M|E C|E C|st a E G|b E|m E|]; subst q s'; unfold erase_proc, goto; cbn.
  - exact (SLoad D same_cookie (erase_proc p) (base s) b E).
  - exact (SHit D same_cookie (erase_proc p) (base s) m E M).
  - replace (base (if r then on_base s {| Cache.src := src (base s); Cache.pyc := None |} else s))
      with (if r then {| Cache.src := src (base s); Cache.pyc := None |} else base s)
      by (destruct r; reflexivity).
    exact (SMiss D same_cookie (erase_proc p) (base s) m r E M).
  - exact (SWriteTmp D same_cookie (erase_proc p) (base s) E).
  - exact (SCrash D same_cookie (erase_proc p) (base s)).
  - rewrite (Hw E) in G. injection G as <-.
    exact (SReplace D same_cookie (erase_proc p) (base s) st E).
  - exact (SReload D same_cookie (erase_proc p) (base s) b E).
  - exact (SVerify D same_cookie (erase_proc p) (base s) m E).
  - exact (SCrash D same_cookie (erase_proc p) (base s)).
Qed.

Lemma wstep2_refines : forall a b, tmp_inv a -> wstep2 a b ->
  wstep D same_cookie (erase_world a) (erase_world b).
Proof.
  intros a b [Hw _] H. unfold wstep2 in H.
  inversion H as [w i p q s' Hi Hs|w n d Hfree]; subst; unfold erase_world; cbn.
  - rewrite map_set_nth.
    apply (WStep D same_cookie {| Cache.disk := base (disk2 a); Cache.procs := map erase_proc (procs2 a) |}
             i (erase_proc p) (erase_proc q) (base s')).
    + cbn. apply map_nth_error. exact Hi.
    + cbn. apply pstep2_refines; [|exact Hs].
      intro E. apply Hw; [eapply nth_error_In; exact Hi|exact E].
  - rewrite map_app. cbn.
    exact (WSpawn D same_cookie {| Cache.disk := base (disk2 a); Cache.procs := map erase_proc (procs2 a) |} d).
Qed.

(* every run with temporary files and pids, from a world without processes, is -- pids and temporary files
   erased -- a run of Kernel/Cache.v *)
Theorem refines : forall s0 w, wsteps2 (init2 s0) w ->
  wsteps D same_cookie {| Cache.disk := base s0; Cache.procs := [] |} (erase_world w).
Proof.
  intros s0 w H. unfold wsteps2 in H. remember (init2 s0) as w0 eqn:E0.
  induction H as [w|a b c Hab IH Hbc].
  - subst w. apply WRefl.
  - eapply WTrans; [exact (IH E0)|].
    apply wstep2_refines; [|exact Hbc].
    subst a. exact (wsteps2_inv _ _ _ (tmp_inv_init s0) Hab).
Qed.

(* safety is inherited from Kernel/Cache.v through the refinement *)
Theorem cache_tmp_safe : forall s0 w, wsteps2 (init2 s0) w ->
  forall p d, In p (procs2 w) -> p_pc p = PInstalled d -> d = p_own p.
Proof.
  intros s0 w H p d Hin E.
  apply (cache_safe_from_scratch D same_cookie same_cookie_same_code (base s0) (erase_world w) (refines s0 w H)
           (erase_proc p) d).
  - unfold erase_world. cbn. apply in_map. exact Hin.
  - exact E.
Qed.

(* ---- progress: no leftover temporary file blocks anybody ---- *)
Theorem cache_tmp_progress : forall s0 w, wsteps2 (init2 s0) w ->
  forall p, In p (procs2 w) -> (forall d, p_pc p <> PInstalled d) -> p_pc p <> PCrashed ->
  exists q s', pstep2 p (disk2 w) q s' /\ p_pc q <> PCrashed.
Proof.
  intros s0 w H p Hin Hni Hnc.
  destruct (tmp_invariant s0 w H) as [Hw _]. unfold pstep2.
  destruct (p_pc p) as [|m| | | |m|d|] eqn:E.
  - eexists _, _. split; [apply (S2Load false p (disk2 w) false E)|cbn; discriminate].
  - destruct (matches same_cookie (p_own p) m) eqn:M.
    + eexists _, _. split; [apply (S2Hit false p (disk2 w) m E M)|cbn; discriminate].
    + eexists _, _. split; [apply (S2Miss false p (disk2 w) m false E M)|cbn; discriminate].
  - (* mode 'w': whatever tmps holds under pid2 p *)
    eexists _, _. split; [apply (S2WriteTmp false p (disk2 w) E); intro Hx; discriminate Hx|cbn; discriminate].
  - (* the invariant: the temporary file is there *)
    eexists _, _. split; [apply (S2Replace false p (disk2 w) 0 _ E (Hw p Hin E))|cbn; discriminate].
  - eexists _, _. split; [apply (S2Reload false p (disk2 w) false E)|cbn; discriminate].
  - eexists _, _. split; [apply (S2Verify false p (disk2 w) m E)|cbn; discriminate].
  - exfalso. exact (Hni d eq_refl).
  - exfalso. exact (Hnc eq_refl).
Qed.

(* ---- the regression: open(tmp, 'x') ---- *)
Lemma wsteps2g_head : forall excl a b c, wstep2g excl a b -> wsteps2g excl b c -> wsteps2g excl a c.
Proof.
  intros excl a b c Hab Hbc. induction Hbc as [w|b c e _ IH Hce].
  - eapply W2Trans; [apply W2Refl|exact Hab].
  - eapply W2Trans; [exact (IH Hab)|exact Hce].
Qed.

Definition empty_fs2 : fs2 := {| base := {| Cache.src := None; Cache.pyc := None |}; tmps := [] |}.
(* what the first process (pid 1) leaves in its temporary file: torn = it died in the middle of the write,
   else it died after the write and before the rename *)
Definition leftover (d : D) (torn : bool) : art D := if torn then Partial else Whole d.
(* the first process is dead, its temporary file is there, the second process got the same pid and is about to
   write its temporary file *)
Definition stuck_world (d : D) (torn : bool) : world2 :=
  {| disk2 := {| base := {| Cache.src := None; Cache.pyc := None |}; tmps := [(1, leftover d torn)] |};
     procs2 := [ {| pid2 := 1; p_own := d; p_pc := PCrashed |}; {| pid2 := 1; p_own := d; p_pc := PRemoved |} ] |}.

Lemma stuck_world_reached : forall d torn, wsteps2x (init2 empty_fs2) (stuck_world d torn).
Proof.
  intros d torn. unfold wsteps2x, init2, empty_fs2.
  (* process 0 appears under pid 1 *)
  eapply wsteps2g_head.
  { apply (W2Spawn true _ 1 d). intros p Hin. destruct Hin. }
  cbn.
  (* it finds no module *)
  eapply wsteps2g_head.
  { eapply (W2Step true _ 0); [reflexivity|]. apply (S2Load true _ _ false). reflexivity. }
  cbn.
  eapply wsteps2g_head.
  { eapply (W2Step true _ 0); [reflexivity|]. apply (S2Miss true _ _ None false); reflexivity. }
  cbn.
  (* it writes its temporary file and dies: in the middle of the write, or before the rename *)
  destruct torn.
  - eapply wsteps2g_head.
    { eapply (W2Step true _ 0); [reflexivity|]. apply S2CrashInWrite; [reflexivity|]. intros _. reflexivity. }
    cbn.
    eapply wsteps2g_head.
    { apply (W2Spawn true _ 1 d). intros p [<-|[]] R. discriminate R. }
    cbn.
    eapply wsteps2g_head.
    { eapply (W2Step true _ 1); [reflexivity|]. apply (S2Load true _ _ false). reflexivity. }
    cbn.
    eapply wsteps2g_head.
    { eapply (W2Step true _ 1); [reflexivity|]. apply (S2Miss true _ _ None false); reflexivity. }
    cbn. apply W2Refl.
  - eapply wsteps2g_head.
    { eapply (W2Step true _ 0); [reflexivity|]. apply S2WriteTmp; [reflexivity|]. intros _. reflexivity. }
    cbn.
    eapply wsteps2g_head.
    { eapply (W2Step true _ 0); [reflexivity|]. apply S2Crash. }
    cbn.
    (* the pid of the dead process is handed out again *)
    eapply wsteps2g_head.
    { apply (W2Spawn true _ 1 d). intros p [<-|[]] R. discriminate R. }
    cbn.
    eapply wsteps2g_head.
    { eapply (W2Step true _ 1); [reflexivity|]. apply (S2Load true _ _ false). reflexivity. }
    cbn.
    eapply wsteps2g_head.
    { eapply (W2Step true _ 1); [reflexivity|]. apply (S2Miss true _ _ None false); reflexivity. }
    cbn. apply W2Refl.
Qed.

(* with exclusive creation: from the empty disk, a process with pid 1 dies in the middle of its write step
   (torn = true) or after it (torn = false); a NEW process gets pid 1, reaches PRemoved -- and every step it has
   left is a crash: FileExistsError, for ever (nothing ever removes the file) *)
Theorem exclusive_create_stuck : forall d : D, forall torn : bool, exists w p,
  w = stuck_world d torn /\
  wsteps2x (init2 empty_fs2) w /\
  nth_error (procs2 w) 0 = Some {| pid2 := 1; p_own := d; p_pc := PCrashed |} /\
  nth_error (procs2 w) 1 = Some p /\ pid2 p = 1 /\ p_pc p = PRemoved /\ running p = true /\
  (forall q s', pstep2x p (disk2 w) q s' -> p_pc q = PCrashed).
Proof.
  intros d torn. exists (stuck_world d torn), {| pid2 := 1; p_own := d; p_pc := PRemoved |}.
  split; [reflexivity|]. split; [apply stuck_world_reached|].
  repeat (split; [reflexivity|]).
  intros q s' H. unfold pstep2x in H.
  inversion H as [b E|m E M|m r E M|E C|E C|st a E G|b E|m E|]; subst; cbn in *;
    try discriminate E; try reflexivity.
  (* the write step: open(tmp, 'x') needs the file absent, and it is there *)
  specialize (C eq_refl). discriminate C.
Qed.

(* for contrast, in the very same world the code (mode 'w') goes on *)
Lemma truncate_not_stuck : forall d torn, exists q s',
  pstep2 {| pid2 := 1; p_own := d; p_pc := PRemoved |} (disk2 (stuck_world d torn)) q s' /\ p_pc q = PWritten
  /\ tmp_get (tmps s') 1 = Some (Whole d).
Proof.
  intros d torn. eexists _, _. split; [|split].
  - apply (S2WriteTmp false); [reflexivity|]. intro Hx. discriminate Hx.
  - reflexivity.
  - reflexivity.
Qed.
End CacheTmp.

Print Assumptions tmp_invariant.
Print Assumptions refines.
Print Assumptions cache_tmp_safe.
Print Assumptions cache_tmp_progress.
Print Assumptions exclusive_create_stuck.
