(* C09 -- Deferred field expressions mean what the same Python expression means.
   Model: Kernel/ExprK.v (the expression trees the deferred operators build, the postfix compiler compile_expr,
   the stack machine exec_compiled_expr, generic in values / exceptions / operator semantics) and its instance
   Model/ExprInst.v with the concrete values and python operator semantics of Model/Value.v. *)
From Coq Require Import ZArith List Bool.
From Bisturi Require Import Kernel.ExprK Model.Value Model.ExprInst Proofs.ExprProofs.
Import ListNotations. Open Scope Z_scope.

(* for EVERY value domain, exception type, operator semantics, expression (unary, binary, n-ary with a list or a
   mapping, nested arbitrarily), environment and stack: running the compiled postfix program leaves exactly the
   eager left-to-right meaning of the expression on the stack, or raises its first exception *)
Theorem C09_compile_correct :
  forall (V E env F : Type) (lookup : env -> F -> V + E) (op1 : nat -> V -> V + E) (op2 : nat -> V -> V -> V + E)
         (mk_tuple : list V -> V) (mk_dict : list V -> list V -> V) (pk : env) (e : ExprK.expr V F) (st : list V),
  ExprK.run V E env F lookup op1 op2 mk_tuple mk_dict pk st (ExprK.compile V F e) =
  match ExprK.eval V E env F lookup op1 op2 mk_tuple mk_dict pk e with inl v => inl (v :: st) | inr ex => inr ex end.
Proof. intros. apply compile_correct. Qed.

(* with python's semantics of the supported operators on integers, booleans, bytes, lists, None: the value (or the
   exception kind) the stack machine produces is the one the python expression has (Value.eval is what the
   parsing model uses for sizes, counts, conditions and selectors) *)
Theorem C09_deferred_means_python : forall cx e g st, to_g e = Some g ->
  g_run cx st (g_compile g) = match Value.eval cx e with Ok v => inl (v :: st) | Exn x => inr x end.
Proof. exact deferred_correct. Qed.
Theorem C09_tree_meaning : forall cx e g, to_g e = Some g -> g_eval cx g = to_sum (Value.eval cx e).
Proof. exact to_g_eval. Qed.
(* every expression built from the supported operators has a deferred form *)
Theorem C09_total : forall e, deferrable e = true -> exists g, to_g e = Some g.
Proof. exact to_g_total. Qed.
(* operands stay in source order, in either operand order of the python expression (8 - x vs x - 8) *)
Theorem C09_operand_order : forall o l r, to_g (EBin o l r) =
  match to_g l, to_g r with Some a, Some b => Some (Bin value fname (bop_code o) a b) | _, _ => None end.
Proof. exact reflected_order. Qed.

Example C09_example :
  let cx := {| e_slots := [(FN 0, VInt 3)]; e_offset := None; e_rawlen := None |} in
  g_run cx [] (g_compile (Bin value fname (bop_code Sub) (Lit value fname (VInt 8)) (Fld value fname (FN 0)))) = inl [VInt 5] /\
  g_run cx [] (g_compile (Bin value fname (bop_code Sub) (Fld value fname (FN 0)) (Lit value fname (VInt 8)))) = inl [VInt (-5)] /\
  g_run cx [] (g_compile (Bin value fname (bop_code FloorDiv) (Fld value fname (FN 0)) (Lit value fname (VInt 0)))) = inr ZeroDivisionError.
Proof. vm_compute. repeat split; reflexivity. Qed.

Print Assumptions C09_compile_correct.
Print Assumptions C09_deferred_means_python.
Print Assumptions C09_tree_meaning.
Print Assumptions C09_total.
Print Assumptions C09_operand_order.
