(* placeholder until Proofs/WorldProofs.v lands *)
From Bisturi Require Import Model.World.
Theorem C13_stub : ct_keeps nil = true. Proof. reflexivity. Qed.
Print Assumptions C13_stub.
