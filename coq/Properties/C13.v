(* C13 -- Packets are independent and pack/unpack are observationally pure.  (PARTIAL: see the end of this comment.)
   Two models.
   (a) Model/World.v: in the functional model a packet is a value; the only state OUTSIDE packets is what field objects
       remember between calls: `dstate`, the delimiter of a regex-delimited field whose delimiter is not kept in the value
       (written by unpack: ghost item TDelim; read by pack).  Theorems: for every other declaration nothing is ever written
       to or read from it, pack leaves every declared field unchanged, packing again returns the same bytes.
   (b) Model/Heap.v: packets and lists as OBJECTS (cells with addresses), the operations of a user on live packets
       (construct, parse, re-parse, assign, append, serialize) with their aliasing behaviour, and the ghost set `shared` of
       objects the user put in two places.  Theorems (Proofs/HeapProofs.v): construct / parse allocate only fresh cells; after
       EVERY history two live packets have in common only what hangs below an object of `shared` (nothing at all if the user
       never hands over an object of a live packet); an operation on one packet leaves every other live packet's tree as it
       was unless the written cell hangs below a shared object; serializing writes no cell; and (Proofs/HeapAdequacy.v) without user
       sharing the object world shows after every history exactly what the world of plain values (Model/HeapSpec.v) shows --
       the value model used by every other property is adequate for live, mutable packets.  The model's aliasing behaviour is
       tied to bisturi by the identity correspondence of harness/props/C13.py (which (packet, path) pairs are one object
       after every operation of a history) and by the template kernels of init / Ref / Prototype.
   (c) Proofs/Interleave.v: THREADS at the granularity of one user operation.  A schedule is any merge of the threads'
       operation lists; when the threads work on distinct packets, every thread observes under every schedule exactly the
       raises and pack() outputs it observes running alone, its packets end as they end when it runs alone, any two
       schedules of the same threads end in the same world, and the same holds of the object world (through adequacy).
   PARTIAL: thread switches INSIDE one operation (bytecode level, under the GIL) are not expressible in either model; that
   one operation reads and writes only cells of its own packet (C13_step_local, C13_pack_writes_no_cell) and never writes
   class-level state (C13_parse_writes_nothing; the write monitor of the check) is what makes operation granularity
   adequate, and it is exercised on the implementation (8 threads).  Finding D8 (the dstate itself) is a KNOWN-FINDING; D9 was repaired. *)
From Coq Require Import ZArith List Bool.
From Bisturi Require Import Base.Bytes Kernel.Frag Model.Value Model.Decl Model.Unpack Model.Pack Model.Codegen Model.World
                            Model.Init Model.Canon Model.Heap Model.HeapSpec Proofs.WorldProofs Proofs.HeapProofs Proofs.HeapAdequacy Proofs.Interleave.
Import ListNotations. Open Scope Z_scope.

(* parsing writes no class-level state (every regex delimiter kept in the value) ... *)
Theorem C13_parse_writes_nothing : forall fuel host ct raw c off v e t,
  ct_keeps ct = true -> unpack_any fuel host ct raw c off = POk v e t -> no_delim t.
Proof. exact unpack_writes_no_shared_state. Qed.
(* ... and serializing reads none: the result is the same whatever parses of other packets left there *)
Theorem C13_pack_reads_nothing : forall fuel host dl dl' ct c s fr,
  ct_keeps ct = true -> slots_keep s ->
  pack_any fuel host dl ct c s fr = pack_any fuel host dl' ct c s fr.
Proof. exact pack_reads_no_shared_state. Qed.
(* pack() leaves every declared field as it was (only scratch slots are written) *)
Theorem C13_pack_preserves_fields : forall fuel host dl ct c s fr v fr',
  pack_any fuel host dl ct c s fr = QOk v fr' ->
  exists s', v = VPkt c s' /\ forall i, slot_get s' (FN i) = slot_get s (FN i).
Proof. exact pack_preserves_fields. Qed.
(* repeated pack() calls return the same bytes (declarations as a user can write them: expressions evaluated when
   serializing mention declared field names only; bit runs: Properties/C07.C07_pack_stale_irrelevant) *)
Theorem C13_pack_twice : forall fuel host dl ct c s b s',
  ct_no_bits ct = true -> ct_pack_exprs_fn ct = true ->
  pack_any_top fuel host dl ct c s = PBytes b (VPkt c s') ->
  exists s'', pack_any_top fuel host dl ct c s' = PBytes b (VPkt c s'').
Proof. exact pack_twice_same_bytes. Qed.
Theorem C13_pack_twice_fresh : forall fuel host dl ct c s b s',
  (forall f v, slot_get s f = Some v -> exists i, f = FN i) ->
  pack_any_top fuel host dl ct c s = PBytes b (VPkt c s') ->
  exists s'', pack_any_top fuel host dl ct c s' = PBytes b (VPkt c s'').
Proof. exact pack_twice_same_bytes_fresh. Qed.
(* without the side condition the statement is false: an expression reading a scratch slot sees what the first pack left *)
Theorem C13_pack_twice_refuted_hidden_read :
  ~ (forall fuel host dl ct c s b s', ct_no_bits ct = true ->
       pack_any_top fuel host dl ct c s = PBytes b (VPkt c s') ->
       exists s'', pack_any_top fuel host dl ct c s' = PBytes b (VPkt c s'')).
Proof. exact pack_twice_refuted_hidden_read. Qed.

(* ---- (b) packets as objects ---- *)
(* constructing / parsing builds its result out of fresh cells only and touches nothing that exists *)
Theorem C13_alloc_fresh : forall v h x h',
  h_valid h -> alloc_tree v h = (x, h') ->
  h_valid h' /\ next h <= next h' /\
  (forall a, a < next h -> h_get h' a = h_get h a) /\
  (forall b, reach h' x b -> next h <= b < next h').
Proof. exact alloc_tree_fresh. Qed.
Theorem C13_alloc_read : forall v h x h',
  h_valid h -> alloc_tree v h = (x, h') -> exists k, forall n, (k <= n)%nat -> read_tree n h' x = Some v.
Proof. exact alloc_tree_read. Qed.
(* after every history of construct / parse / re-parse / assign / append / serialize operations, whatever two live packets
   have in common hangs below an object the user put in two places *)
Theorem C13_history_separated : forall host ct ops,
  let w := fold_left (w_run1 host ct) ops w_empty in w_valid w /\ separated w.
Proof. exact history_separated. Qed.
(* ... and nothing at all if the user never hands over an object taken from a live packet *)
Theorem C13_history_disjoint : forall host ct ops,
  forallb op_no_share ops = true ->
  let w := fold_left (w_run1 host ct) ops w_empty in
  forall r1 r2 a1 a2 b, r1 <> r2 -> root_get (roots w) r1 = Some a1 -> root_get (roots w) r2 = Some a2 ->
    reach (hp w) (HRef a1) b -> reach (hp w) (HRef a2) b -> False.
Proof. exact history_disjoint. Qed.
(* an operation leaves another live packet exactly as it was unless the cell it writes is reachable from that packet *)
Theorem C13_step_local : forall host ct w o w' r2 a2 fuel,
  w_valid w -> w_step host ct w o = Some w' ->
  root_get (roots w) r2 = Some a2 ->
  (match o with WNew r _ | WParse r _ _ _ | WReparse r _ => r <> r2 | _ => True end) ->
  (forall b, written_cell w o = Some b -> ~ reach (hp w) (HRef a2) b) ->
  root_get (roots w') r2 = Some a2 /\ read_tree fuel (hp w') (HRef a2) = read_tree fuel (hp w) (HRef a2).
Proof. exact step_local. Qed.
(* with separation: assigning into one packet (not below a shared object) changes no other live packet *)
Theorem C13_set_changes_only_its_packet : forall host ct w r p last x w' r2 a2 b fuel,
  w_valid w -> separated w -> w_step host ct w (WSet r p last x) = Some w' ->
  r2 <> r -> root_get (roots w) r2 = Some a2 ->
  written_cell w (WSet r p last x) = Some b ->
  (forall s, In s (shared w) -> ~ reach (hp w) (HRef s) b) ->
  read_tree fuel (hp w') (HRef a2) = read_tree fuel (hp w) (HRef a2).
Proof. exact set_changes_only_its_packet. Qed.
(* serializing writes no cell *)
Theorem C13_pack_writes_no_cell : forall host ct w r w', w_step host ct w (WPack r) = Some w' -> w' = w.
Proof. exact pack_writes_nothing. Qed.
(* `separated` alone is not preserved by a step (a path below a shared object can be cut): the inductive invariant is
   `tree_like` (at most one parent unless shared); the refutation is machine-checked *)
Example C13_separated_alone_not_inductive :
  w_valid cut_world /\ separated cut_world /\ w_step true [] cut_world cut_op = Some cut_world' /\
  ~ separated cut_world' /\ ~ tree_like cut_world.
Proof. exact cut_counterexample. Qed.

(* ---- (c) the value model is adequate for live, mutable packets: as long as the user puts no object of a live packet into
   a second place, the object world and the world of plain tree values (Model/HeapSpec.v: an assignment is a functional
   update) show the same live names and the same tree for every live packet after EVERY history ... *)
Theorem C13_adequacy_history : forall host ct ops,
  forallb op_no_share ops = true ->
  agrees (fold_left (w_run1 host ct) ops w_empty) (fold_left (f_run1 host ct) ops []).
Proof. exact adequacy_history. Qed.
(* ... and every operation raises in one world iff it raises in the other *)
Theorem C13_adequacy_raises : forall host ct ops o,
  forallb op_no_share ops = true -> op_no_share o = true ->
  let w := fold_left (w_run1 host ct) ops w_empty in
  let fw := fold_left (f_run1 host ct) ops [] in
  w_step host ct w o = None <-> f_step host ct fw o = None.
Proof. exact adequacy_raises. Qed.
(* one step, from any well-formed, unshared, plain world *)
Theorem C13_adequacy_step : forall host ct w fw o,
  w_valid w -> tree_like w -> shared w = [] -> h_plain (hp w) -> agrees w fw -> op_no_share o = true ->
  match w_step host ct w o, f_step host ct fw o with
  | Some w', Some fw' => agrees w' fw'
  | None, None => True
  | _, _ => False
  end.
Proof. exact adequacy_step. Qed.

(* ---- threads (operation granularity): every schedule of threads that work on distinct packets ---- *)
(* each thread sees the raises and the pack() outputs it sees running alone ... *)
Theorem C13_thread_isolation_outs : forall host ct (I : sched) fw t, distinct_packets I ->
  outs_of t (s_outs host ct fw I) = f_outs host ct fw (proj t I).
Proof. exact thread_isolation_outs. Qed.
(* ... its packets end as they end when it runs alone ... *)
Theorem C13_thread_isolation_final : forall host ct (I : sched) fw t r, distinct_packets I -> In r (names (proj t I)) ->
  fw_get (fold_left (f_run1 host ct) (map snd I) fw) r = fw_get (fold_left (f_run1 host ct) (proj t I) fw) r.
Proof. exact thread_isolation_final. Qed.
(* ... two schedules of the same threads end in the same world ... *)
Theorem C13_schedules_agree : forall host ct (I J : sched) fw, distinct_packets I ->
  (forall t, proj t I = proj t J) -> (forall t o, In (t, o) J -> In (t, o) I) ->
  fw_equiv (fold_left (f_run1 host ct) (map snd I) fw) (fold_left (f_run1 host ct) (map snd J) fw).
Proof. exact schedules_agree. Qed.
(* ... operations on distinct packets commute, outputs included ... *)
Theorem C13_operations_commute : forall host ct fw o1 o2,
  (forall x, In x (touches o1) -> In x (touches o2) -> False) ->
  fw_equiv (f_run1 host ct (f_run1 host ct fw o1) o2) (f_run1 host ct (f_run1 host ct fw o2) o1) /\
  f_out host ct (f_run1 host ct fw o2) o1 = f_out host ct fw o1 /\
  f_out host ct (f_run1 host ct fw o1) o2 = f_out host ct fw o2.
Proof. exact f_run1_commute. Qed.
(* ... and the same of live objects: under every schedule without user sharing each packet of thread t reads as the tree
   it reads as when t runs alone *)
Theorem C13_heap_thread_isolation : forall host ct (I : sched) t r a,
  distinct_packets I -> forallb op_no_share (map snd I) = true -> In r (names (proj t I)) ->
  let wI := fold_left (w_run1 host ct) (map snd I) w_empty in
  let wt := fold_left (w_run1 host ct) (proj t I) w_empty in
  root_get (roots wI) r = Some a ->
  exists a' tr, root_get (roots wt) r = Some a' /\ den (hp wI) (HRef a) tr /\ den (hp wt) (HRef a') tr.
Proof. exact heap_thread_isolation. Qed.
(* non-vacuity: two threads on packets of one class, interleaved *)
Example C13_threads_example : distinct_packets il_sched /\
  s_outs false il_ct [] il_sched =
  [(0%nat, Some None); (1%nat, Some None); (1%nat, Some None); (0%nat, Some (Some [7; 8])); (1%nat, Some (Some [9; 2]));
   (0%nat, Some None); (0%nat, Some (Some [7; 3]))].
Proof.
  split; [| exact il_outs].
  unfold distinct_packets, il_sched. intros t1 o1 t2 o2 x H1 H2 Hne Hx1 Hx2.
  cbn [In] in H1, H2.
  repeat match goal with H : _ \/ _ |- _ => destruct H as [H | H] end;
    try contradiction;
    repeat match goal with H : (_, _) = (_, _) |- _ => inversion H; clear H; subst end;
    try (exfalso; apply Hne; reflexivity);
    cbn in Hx1, Hx2;
    repeat match goal with H : _ \/ _ |- _ => destruct H as [H | H] end; try contradiction; subst; discriminate.
Qed.

Print Assumptions C13_parse_writes_nothing.
Print Assumptions C13_adequacy_history.
Print Assumptions C13_adequacy_raises.
Print Assumptions C13_adequacy_step.
Print Assumptions C13_alloc_fresh.
Print Assumptions C13_alloc_read.
Print Assumptions C13_history_separated.
Print Assumptions C13_history_disjoint.
Print Assumptions C13_step_local.
Print Assumptions C13_set_changes_only_its_packet.
Print Assumptions C13_pack_writes_no_cell.
Print Assumptions C13_pack_reads_nothing.
Print Assumptions C13_pack_preserves_fields.
Print Assumptions C13_pack_twice.
Print Assumptions C13_pack_twice_fresh.
Print Assumptions C13_pack_twice_refuted_hidden_read.
Print Assumptions C13_thread_isolation_outs.
Print Assumptions C13_thread_isolation_final.
Print Assumptions C13_schedules_agree.
Print Assumptions C13_operations_commute.
Print Assumptions C13_heap_thread_isolation.
Print Assumptions C13_threads_example.
