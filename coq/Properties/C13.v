(* C13 -- Packets are independent and pack/unpack are observationally pure.  (PARTIAL: see below.)
   In the functional model a packet is a value, so one packet cannot change another by construction; the only state
   OUTSIDE packets is what field objects remember between calls: `dstate`, the delimiter of a regex-delimited field
   whose delimiter is not kept in the value (written by unpack: ghost item TDelim; read by pack).  The theorems show
   that for every other declaration nothing is ever written to or read from it, that pack leaves every declared field
   unchanged, and that packing again returns the same bytes.
   NOT expressible in the model, checked on the implementation only (harness/props/C13.py): aliasing of mutable
   sub-objects (values have no identity), real thread interleavings.  Findings D8 (the dstate itself) and D9 (a deferred
   selector hands out one shared packet object) are KNOWN-FINDINGs. *)
From Coq Require Import ZArith List Bool.
From Bisturi Require Import Base.Bytes Kernel.Frag Model.Value Model.Decl Model.Unpack Model.Pack Model.Codegen Model.World
                            Proofs.WorldProofs.
Import ListNotations. Open Scope Z_scope.

(* parsing writes no class-level state (every regex delimiter kept in the value) ... *)
Theorem C13_parse_writes_nothing : forall fuel host ct raw c off v e t,
  ct_keeps ct = true -> unpack_any fuel host ct raw c off = POk v e t -> no_delim t.
Proof. exact unpack_writes_no_shared_state. Qed.
(* ... and serializing reads none: the result is the same whatever parses of other packets left there *)
Theorem C13_pack_reads_nothing : forall fuel host dl dl' ct c s fr,
  ct_keeps ct = true -> slots_keep s ->
  pack_any fuel host dl ct c s fr = pack_any fuel host dl' ct c s fr.
Proof. exact pack_reads_no_shared_state. Qed.
(* pack() leaves every declared field as it was (only scratch slots are written) *)
Theorem C13_pack_preserves_fields : forall fuel host dl ct c s fr v fr',
  pack_any fuel host dl ct c s fr = QOk v fr' ->
  exists s', v = VPkt c s' /\ forall i, slot_get s' (FN i) = slot_get s (FN i).
Proof. exact pack_preserves_fields. Qed.
(* repeated pack() calls return the same bytes (declarations as a user can write them: expressions evaluated when
   serializing mention declared field names only; bit runs: Properties/C07.C07_pack_stale_irrelevant) *)
Theorem C13_pack_twice : forall fuel host dl ct c s b s',
  ct_no_bits ct = true -> ct_pack_exprs_fn ct = true ->
  pack_any_top fuel host dl ct c s = PBytes b (VPkt c s') ->
  exists s'', pack_any_top fuel host dl ct c s' = PBytes b (VPkt c s'').
Proof. exact pack_twice_same_bytes. Qed.
Theorem C13_pack_twice_fresh : forall fuel host dl ct c s b s',
  (forall f v, slot_get s f = Some v -> exists i, f = FN i) ->
  pack_any_top fuel host dl ct c s = PBytes b (VPkt c s') ->
  exists s'', pack_any_top fuel host dl ct c s' = PBytes b (VPkt c s'').
Proof. exact pack_twice_same_bytes_fresh. Qed.
(* without the side condition the statement is false: an expression reading a scratch slot sees what the first pack left *)
Theorem C13_pack_twice_refuted_hidden_read :
  ~ (forall fuel host dl ct c s b s', ct_no_bits ct = true ->
       pack_any_top fuel host dl ct c s = PBytes b (VPkt c s') ->
       exists s'', pack_any_top fuel host dl ct c s' = PBytes b (VPkt c s'')).
Proof. exact pack_twice_refuted_hidden_read. Qed.

Print Assumptions C13_parse_writes_nothing.
Print Assumptions C13_pack_reads_nothing.
Print Assumptions C13_pack_preserves_fields.
Print Assumptions C13_pack_twice.
Print Assumptions C13_pack_twice_fresh.
Print Assumptions C13_pack_twice_refuted_hidden_read.
