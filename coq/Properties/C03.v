(* C03 -- Generated pack/unpack code is equivalent to field-by-field interpretation.
   Model: Model/Codegen.v (gen_blocks = the grouping of bisturi/codegen.py; unpack_blocks / pack_blocks = what the
   generated unpack_impl / pack_impl do; unpack_any / pack_any = generated or generic code per class option).
   Tie: harness/props/C03.py compares, per generated module, the source text bisturi wrote with the rendering
   of gen_blocks (translation validation), and runs all option combinations on model and implementation. *)
From Coq Require Import ZArith List Bool.
From Bisturi Require Import Base.Bytes Kernel.IntCodec Kernel.Frag Model.Value Model.Decl Model.Unpack Model.Pack
                            Model.Codegen Model.Wf Model.Wf2 Proofs.FragProofs Proofs.CodegenEquiv.
Import ListNotations. Open Scope Z_scope.

(* whatever the options generate_for_unpack / vectorize are (annotate does not exist in the model: it only adds
   comments), for all declarations, inputs and offsets: same values, same end offset, same consumed chunks,
   failure on exactly the same inputs *)
Theorem C03_unpack_equiv : forall fuel host ct ct' raw c off,
  same_decls ct ct' -> ct_sizes_ok ct = true -> 0 <= off ->
  pres_equiv (unpack_any fuel host ct raw c off) (unpack_any fuel host ct' raw c off).
Proof. exact unpack_codegen_equiv. Qed.
Theorem C03_unpack_is_generic : forall fuel host ct raw c off, ct_sizes_ok ct = true -> 0 <= off ->
  pres_equiv (unpack_any fuel host ct raw c off) (unpack_pkt fuel host ct raw c off).
Proof. exact unpack_any_generic. Qed.
(* whatever generate_for_pack / vectorize are: same bytes, failure on exactly the same values -- provided every
   Data(n) holds exactly n bytes (else: C03_refuted_data_len, finding D11) *)
Theorem C03_pack_equiv : forall fuel host dl ct ct' c s,
  same_decls ct ct' -> ct_wf ct = true -> ct_sizes_ok ct = true -> lens_ok fuel ct (VPkt c s) = true ->
  match pack_any_top fuel host dl ct c s, pack_any_top fuel host dl ct' c s with
  | PBytes b v, PBytes b' v' => b = b' /\ v = v'
  | PErr _, PErr _ => True
  | PNoFuel, PNoFuel => True
  | _, _ => False
  end.
Proof. exact pack_top_codegen_equiv. Qed.
Theorem C03_pack_equiv_buffers : forall fuel host dl ct ct' c s fr fr',
  same_decls ct ct' -> ct_wf ct = true -> ct_sizes_ok ct = true -> lens_ok fuel ct (VPkt c s) = true ->
  good fr -> good fr' -> feq fr fr' ->
  qres_equiv (pack_any fuel host dl ct c s fr) (pack_any fuel host dl ct' c s fr').
Proof. exact pack_codegen_equiv. Qed.

(* D11: Data(4) holding b"ab": the generated code emits "ab\0\0" (struct "4s" pads), the generic loop "ab" *)
Definition d11_class (gen : bool) : cclass :=
  {| cc_conf := empty_conf; cc_gen_pack := gen; cc_gen_unpack := gen; cc_vectorize := true;
     cc_fields := [CElem 0 (ELeafE (LDataSized (ELit (VInt 4)) true (VBytes [])))] |}.
Theorem C03_refuted_data_len :
  pack_any_top 5 false (fun _ _ => []) [(0, d11_class true)] 0 [(FN 0, VBytes [97; 98])] = PBytes [97; 98; 0; 0] (VPkt 0 [(FN 0, VBytes [97; 98])]) /\
  pack_any_top 5 false (fun _ _ => []) [(0, d11_class false)] 0 [(FN 0, VBytes [97; 98])] = PBytes [97; 98] (VPkt 0 [(FN 0, VBytes [97; 98])]).
Proof. vm_compute. split; reflexivity. Qed.

(* non-vacuity: a mixed run (big and little endian, Data(2), a 3-byte int) is grouped as the generator does *)
Example C03_example :
  gen_blocks false empty_conf true
    [CElem 0 (ELeafE (LInt 2 false (Some EBig) (VInt 0))); CElem 1 (ELeafE (LDataSized (ELit (VInt 2)) true (VBytes [])));
     CElem 2 (ELeafE (LInt 4 true (Some ELittle) (VInt 0))); CElem 3 (ELeafE (LInt 3 false None (VInt 0)))] None
  = [BStruct true [SMInt 0 2 false true; SMData 1 2]; BStruct false [SMInt 2 4 true false];
     BLoop (CElem 3 (ELeafE (LInt 3 false None (VInt 0))))].
Proof. vm_compute. reflexivity. Qed.

Print Assumptions C03_unpack_equiv.
Print Assumptions C03_unpack_is_generic.
Print Assumptions C03_pack_equiv.
Print Assumptions C03_pack_equiv_buffers.
Print Assumptions C03_refuted_data_len.
