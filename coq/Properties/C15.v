(* C15 -- A class behaves per its current declaration whatever the code cache holds.
   C16 -- The code cache survives crashes and concurrent definitions.           (see Properties/C16.v)
   Model: Kernel/Cache.v (the cache protocol of CodeGenerator.generate_code as repaired by the D7 fix).
   Assumed, not proved: sha1 collision freedom (Section hypothesis same_cookie_same_code), the interpreter's rule
   for using a bytecode file (equal source stamp), atomicity of os.replace -- see `partial` in the manifest. *)
From Coq Require Import ZArith List Bool.
From Bisturi Require Import Kernel.Cache.
Import ListNotations.

(* whatever the disk holds -- nothing, a torn file, a complete module of another declaration of a same-named
   class, stale bytecode with an equal stamp -- and whatever bytecode caching and the new stamp are: a definition
   installs the code of its own declaration *)
Theorem C15_install : forall (D : Type) (same_cookie : D -> D -> bool),
  (forall a b, same_cookie a b = true -> a = b) ->
  forall b r st d s, fst (define D same_cookie b r st d s) = d.
Proof. intros D sc H. exact (define_installs_own D sc H). Qed.
(* (a sequence of definitions needs no separate statement: C15_install holds from EVERY disk state, in particular
   from whatever the previous definitions left) *)
(* a cache hit leaves the disk as it is and installs the own code *)
Theorem C15_hit : forall (D : Type) (same_cookie : D -> D -> bool),
  (forall a b, same_cookie a b = true -> a = b) ->
  forall p s m q s', at_pc D p = PLoaded D m -> matches D same_cookie (own D p) m = true ->
  pstep D same_cookie p s q s' -> at_pc D q <> PCrashed D -> s' = s /\ at_pc D q = PInstalled D (own D p).
Proof. intros D sc H. exact (cache_hit_pure D sc H). Qed.

Print Assumptions C15_install.
Print Assumptions C15_hit.
