(* C11 -- The output buffer never loses, overwrites or misplaces bytes.
   Model: Kernel/Frag.v = bisturi/fragments.py class Fragments as repaired by the D3 "fix:" commit
   (tied by Bridge/FragBridge.v and by harness/props/C11.py).  Only property theorems, closed by `exact`. *)
From Coq Require Import ZArith List Bool.
From Bisturi Require Import Base.Bytes Kernel.Frag Proofs.FragProofs Proofs.FragContinue.
Import ListNotations. Open Scope Z_scope.

(* inserting a non-empty chunk raises exactly when some byte of [p, p+len) is already occupied ... *)
Theorem C11_collision_iff : forall s p b, Inv s -> b <> [] ->
  (insert s p b = Collision <-> exists q, p <= q < p + blen b /\ cell (frags s) q <> None).
Proof. exact insert_collision_iff. Qed.
(* ... otherwise it stores exactly those bytes, leaves the cursor at p+len, alters or drops nothing stored
   earlier, and the extent becomes the largest end position ever inserted *)
Theorem C11_insert : forall s p b s', Inv s -> insert s p b = Ok s' ->
  Inv s' /\ cur s' = p + blen b /\
  (forall q, cell (frags s') q = if (p <=? q) && (q <? p + blen b) then nth_error b (Z.to_nat (q - p)) else cell (frags s) q) /\
  extent (frags s') = Z.max (extent (frags s)) (p + blen b).
Proof. exact insert_ok. Qed.
(* an empty chunk never raises (it only extends the extent, by C11_insert with b = []) *)
Theorem C11_empty_chunk : forall s p, Inv s -> exists s', insert s p [] = Ok s'.
Proof. exact insert_empty_ok. Qed.
(* no internal error (KeyError / IndexError) is reachable *)
Theorem C11_no_crash : forall s p b, Inv s -> insert s p b <> Crash.
Proof. exact insert_no_crash. Qed.
(* the final string: every stored byte at its position, the fill byte in every hole, length = extent *)
Theorem C11_tobytes : forall s, Inv s -> NonNeg s ->
  blen (tobytes s) = extent (frags s) /\
  forall q, 0 <= q < extent (frags s) ->
    nth_error (tobytes s) (Z.to_nat q) = Some (match cell (frags s) q with Some x => x | None => FILL end).
Proof. exact tobytes_spec. Qed.
(* every history of insert / append / extend / cursor moves at non-negative positions behaves as the sparse
   byte array a_apply / a_tobytes of Kernel/Frag.v: same raise-or-not, same final string *)
Theorem C11_history : forall ops s a, R s a -> Forall op_nonneg ops -> forall k,
  match fst (run_ops s ops k) with
  | Ok s' => exists a', fold_a a ops = Some a' /\ R s' a'
  | Collision => fold_a a ops = None
  | Crash => False
  end.
Proof. exact history_refines. Qed.
Theorem C11_history_start : R empty aempty.
Proof. exact R_empty. Qed.
Theorem C11_history_bytes : forall s a, R s a -> tobytes s = a_tobytes a.
Proof. exact tobytes_refines. Qed.

(* ---- a caller that CATCHES the collision and goes on using the buffer: a rejected operation leaves it as it was ---- *)
Theorem C11_history_continue : forall ops s a k, R s a -> Forall op_nonneg ops ->
  R (fst (run_ops_c s ops k)) (fst (fold_a_c a ops k)) /\ snd (run_ops_c s ops k) = snd (fold_a_c a ops k).
Proof. exact history_continue_refines. Qed.
Theorem C11_history_continue_bytes : forall ops k, Forall op_nonneg ops ->
  tobytes (fst (run_ops_c empty ops k)) = a_tobytes (fst (fold_a_c aempty ops k)).
Proof. exact history_continue_bytes. Qed.
Theorem C11_rejected_is_noop : forall s o r k, (forall s', apply_op s o <> Ok s') ->
  fst (run_ops_c s (o :: r) k) = fst (run_ops_c s r (k + 1)).
Proof. exact rejected_is_noop. Qed.
Example C11_continue_example :
  run_ops_c empty [OInsert 0 [1; 2]; OInsert 1 [9; 9]; OAppend [3]; OInsert 0 [7]; OAppend [4]] 0 =
    ({| frags := [(0, [1; 2]); (2, [3]); (3, [4])]; begins := [0; 2; 3]; cur := 4 |}, [1; 3]) /\
  tobytes (fst (run_ops_c empty [OInsert 0 [1; 2]; OInsert 1 [9; 9]; OAppend [3]; OInsert 0 [7]; OAppend [4]] 0)) = [1; 2; 3; 4].
Proof. exact continue_example. Qed.

Example C11_example :
  fst (run_ops empty [OInsert 5 [1; 2]; OInsert 0 [7]; OInsert 3 []] 0) =
    Ok {| frags := [(0, [7]); (3, []); (5, [1; 2])]; begins := [0; 5]; cur := 3 |} /\
  tobytes {| frags := [(0, [7]); (3, []); (5, [1; 2])]; begins := [0; 5]; cur := 3 |} = [7; 46; 46; 46; 46; 1; 2].
Proof. vm_compute. split; reflexivity. Qed.

Print Assumptions C11_collision_iff.
Print Assumptions C11_insert.
Print Assumptions C11_empty_chunk.
Print Assumptions C11_no_crash.
Print Assumptions C11_tobytes.
Print Assumptions C11_history.
Print Assumptions C11_history_start.
Print Assumptions C11_history_bytes.
Print Assumptions C11_history_continue.
Print Assumptions C11_history_continue_bytes.
Print Assumptions C11_rejected_is_noop.
