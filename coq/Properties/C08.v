(* C08 -- Repeated, optional and referenced fields follow their declared control semantics.
   Model: Model/Unpack.v (unpack_field for CSeq / COpt / CElem, unpack_count, unpack_until, unpack_elem) and
   Model/Pack.v.  All theorems hold for every nested-packet parser `rec`, every input and every state. *)
From Coq Require Import ZArith List Bool.
From Bisturi Require Import Base.Bytes Kernel.Align Model.Value Model.Decl Model.Unpack Model.Pack Proofs.Control.
Import ListNotations. Open Scope Z_scope.

(* a false when-condition (or a non-positive count under a when-condition): an empty list, no bytes consumed *)
Theorem C08_when_false : forall host raw rec lf cf c i e count until w d al s off ipp n,
  (match count with Some ce => eval_int (mkctx raw (slot_set s (FN i) (VList [])) off) ce | None => Ok 1 end) = Ok n ->
  (n <= 0 \/ exists v, eval (mkctx raw (slot_set s (FN i) (VList [])) off) w = Ok v /\ truth v = false) ->
  unpack_field host raw rec lf cf c (CSeq i e count until (Some w) d al) s off ipp = FOk (slot_set s (FN i) (VList [])) off [].
Proof. intros host raw rec lf. exact (seq_skipped host raw rec lf). Qed.
(* with a count: exactly max(count, 0) elements *)
Theorem C08_count : forall host raw rec lf cf c i e ce w d al s off ipp s' o' t n,
  unpack_field host raw rec lf cf c (CSeq i e (Some ce) None w d al) s off ipp = FOk s' o' t ->
  eval_int (mkctx raw (slot_set s (FN i) (VList [])) off) ce = Ok n ->
  (match w with None => True | Some we => 0 < n /\ exists v, eval (mkctx raw (slot_set s (FN i) (VList [])) off) we = Ok v /\ truth v = true end) ->
  exists l, slot_get s' (FN i) = Some (VList l) /\ length l = Z.to_nat n.
Proof. intros host raw rec lf. exact (seq_count_length host raw rec lf). Qed.
(* ... in particular a count that is not positive (a signed field below zero, `n - 3`) yields the empty list and consumes nothing *)
Theorem C08_count_nonpositive : forall host raw rec lf cf c i e ce d al s off ipp n,
  eval_int (mkctx raw (slot_set s (FN i) (VList [])) off) ce = Ok n ->
  n <= 0 ->
  unpack_field host raw rec lf cf c (CSeq i e (Some ce) None None d al) s off ipp = FOk (slot_set s (FN i) (VList [])) off [].
Proof. intros host raw rec lf. exact (seq_count_nonpositive host raw rec lf). Qed.
(* with an until-condition (which sees the list built so far): the loop ends exactly when it is true ... *)
Theorem C08_until_final : forall host raw rec fuel cf c i e al u s off t s' o' t',
  unpack_until host raw rec fuel cf c i e al u s off t = FOk s' o' t' ->
  exists v, eval (mkctx raw s' o') u = Ok v /\ truth v = true.
Proof. intros host raw rec. exact (until_final host raw rec). Qed.
(* ... stops right there when it is already true ... *)
Theorem C08_until_stops : forall host raw rec fuel cf c i e al u s off t v,
  eval (mkctx raw s off) u = Ok v -> truth v = true ->
  unpack_until host raw rec fuel cf c i e al u s off t = FOk s off t.
Proof. intros host raw rec. exact (until_stops_at_once host raw rec). Qed.
(* ... and otherwise parses exactly one more element (after its alignment), appends it, and asks again *)
Theorem C08_until_one_more : forall host raw rec fuel cf c i e al u s off t v o1,
  eval (mkctx raw s off) u = Ok v -> truth v = false -> seq_align al off = Some o1 ->
  unpack_until host raw rec (S fuel) cf c i e al u s off t =
  match unpack_elem host raw rec cf c (FSeqElem i) e s o1 with
  | FOk s1 o2 t1 => unpack_until host raw rec fuel cf c i e al u (append_to s1 (FN i) (elem_value s1 (FSeqElem i))) o2 (t ++ t1)
  | r => r
  end.
Proof. intros host raw rec. exact (until_one_more host raw rec). Qed.
(* optional: None, nothing consumed, iff the condition is false; later nothing is emitted *)
Theorem C08_optional_absent : forall host raw rec lf cf c i e w d s off ipp v,
  eval (mkctx raw s off) w = Ok v -> truth v = false ->
  unpack_field host raw rec lf cf c (COpt i e w d) s off ipp = FOk (slot_set s (FN i) VNone) off [].
Proof. intros host raw rec lf. exact (opt_absent host raw rec lf). Qed.
(* ... in particular when the condition is another (optional) FIELD that is absent, empty or zero: chained optionals *)
Theorem C08_optional_chained_absent : forall host raw rec lf cf c i e f d s off ipp v,
  slot_get s f = Some v -> (v = VNone \/ v = VBytes [] \/ v = VInt 0 \/ v = VList []) ->
  unpack_field host raw rec lf cf c (COpt i e (EField f) d) s off ipp = FOk (slot_set s (FN i) VNone) off [].
Proof.
  intros host raw rec lf cf c i e f d s off ipp v Hs Hv.
  apply (opt_absent host raw rec lf cf c i e (EField f) d s off ipp v).
  - cbn [eval mkctx e_slots]. rewrite Hs. reflexivity.
  - destruct Hv as [-> | [-> | [-> | ->]]]; reflexivity.
Qed.
Theorem C08_optional_present : forall host raw rec lf cf c i e w d s off ipp v,
  eval (mkctx raw s off) w = Ok v -> truth v = true ->
  unpack_field host raw rec lf cf c (COpt i e w d) s off ipp =
  match unpack_elem host raw rec cf c (FOptElem i) e s off with
  | FOk s1 o1 t1 => FOk (slot_set s1 (FN i) (elem_value s1 (FOptElem i))) o1 t1
  | r => r
  end.
Proof. intros host raw rec lf. exact (opt_present host raw rec lf). Qed.
Theorem C08_optional_packs_nothing : forall host dl rec cf c i e w d s fr ipp,
  slot_get s (FN i) = Some VNone -> pack_field host dl rec cf c (COpt i e w d) s fr ipp = KOk s fr.
Proof. exact opt_pack_none. Qed.
(* a reference parses the nested packet at the current position and parsing continues right after it *)
Theorem C08_ref : forall host raw rec cf c name c' proto s off,
  unpack_elem host raw rec cf c name (ERefPkt c' proto) s off =
  match rec c' off with POk v o' t => FOk (slot_set s name v) o' t | PFail st => FFail st | PFuel => FFuel end.
Proof. intros host raw rec. exact (ref_spec host raw rec). Qed.

Print Assumptions C08_when_false.
Print Assumptions C08_count.
Print Assumptions C08_count_nonpositive.
Print Assumptions C08_until_final.
Print Assumptions C08_until_stops.
Print Assumptions C08_until_one_more.
Print Assumptions C08_optional_absent.
Print Assumptions C08_optional_chained_absent.
Print Assumptions C08_optional_present.
Print Assumptions C08_optional_packs_nothing.
Print Assumptions C08_ref.
