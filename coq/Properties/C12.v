(* C12 -- Every failure is a PacketError that locates the failing field.
   Model: in Model/Unpack.v, Model/Pack.v and Model/Codegen.v every exception raised inside a field becomes a
   PacketError by construction (FExn -> PFail, KExn -> QFail: the two except arms of unpack_impl / pack_impl,
   generated and generic); the theorems say WHICH field and offset the stack names.  That the implementation
   raises nothing else is what the correspondence and the oracle of harness/props/C12.py check (and where the
   finding D12 lives: descriptor hooks run outside the wrapped region). *)
From Coq Require Import ZArith List Bool.
From Bisturi Require Import Base.Bytes Kernel.Frag Model.Value Model.Decl Model.Unpack Model.Pack Model.Codegen Proofs.ErrPath.
Import ListNotations. Open Scope Z_scope.

(* parsing, generic loop: the stack ends with the FIRST field that could not be decoded, at the cursor the fields
   before it left; a plain exception gives one entry, a nested PacketError gets this field appended *)
Theorem C12_unpack_locates : forall host raw rec lf cf c fs s off ipp t st,
  unpack_fields host raw rec lf cf c fs s off ipp t = PFail st ->
  exists fs1 f fs2 s1 o1 t1,
    fs = fs1 ++ f :: fs2 /\
    unpack_fields host raw rec lf cf c fs1 s off ipp t = POk (VPkt c s1) o1 t1 /\
    ((exists x, unpack_field host raw rec lf cf c f s1 o1 ipp = FExn x /\ st = [(o1, cf_name f, c)]) \/
     (exists st', unpack_field host raw rec lf cf c f s1 o1 ipp = FFail st' /\ st = st' ++ [(o1, cf_name f, c)])).
Proof. exact unpack_fields_fail. Qed.
(* parsing, generated code: the failing block -- a field, or the run of adjacent fixed-size fields containing it --
   at the cursor where the block begins *)
Theorem C12_unpack_locates_generated : forall host raw rec lf cf c bs s off ipp t st,
  unpack_blocks host raw rec lf cf c bs s off ipp t = PFail st ->
  exists bs1 b bs2 s1 o1 t1,
    bs = bs1 ++ b :: bs2 /\
    unpack_blocks host raw rec lf cf c bs1 s off ipp t = POk (VPkt c s1) o1 t1 /\
    (st = [(o1, block_name b, c)] \/ exists st', st = st' ++ [(o1, block_name b, c)] /\ exists c' o', rec c' o' = PFail st').
Proof. exact unpack_blocks_fail. Qed.
(* outer entries come from nested packet parses only *)
Theorem C12_nested_from_packets : forall host raw rec lf cf c f s off ipp st',
  unpack_field host raw rec lf cf c f s off ipp = FFail st' -> exists c' o', rec c' o' = PFail st'.
Proof. exact unpack_field_ffail. Qed.
(* shape of every error stack: non-empty, one entry per nesting level, the outermost of the class parsed *)
Theorem C12_unpack_stack_shape : forall fuel host ct raw c off st,
  unpack_any fuel host ct raw c off = PFail st -> stack_of c st.
Proof. exact unpack_any_fail_shape. Qed.
(* serializing: same decomposition; every entry carries the cursor at the moment of the failure *)
Theorem C12_pack_locates : forall host dl rec cf c fs s fr ipp st,
  pack_fields host dl rec cf c fs s fr ipp = QFail st ->
  exists fs1 f fs2 s1 fr1,
    fs = fs1 ++ f :: fs2 /\
    pack_fields host dl rec cf c fs1 s fr ipp = QOk (VPkt c s1) fr1 /\
    ((exists x at_cur, pack_field host dl rec cf c f s1 fr1 ipp = KExn x at_cur /\ st = [(at_cur, cf_name f, c)]) \/
     (exists st', pack_field host dl rec cf c f s1 fr1 ipp = KFail st' /\
                  st = st' ++ [(match st' with (o, _, _) :: _ => o | [] => cur fr1 end, cf_name f, c)])).
Proof. exact pack_fields_fail. Qed.
Theorem C12_pack_stack_shape : forall fuel host dl ct c s fr st,
  pack_any fuel host dl ct c s fr = QFail st -> stack_of c st /\ same_offsets st.
Proof. exact pack_any_fail_shape. Qed.

Print Assumptions C12_unpack_locates.
Print Assumptions C12_unpack_locates_generated.
Print Assumptions C12_nested_from_packets.
Print Assumptions C12_unpack_stack_shape.
Print Assumptions C12_pack_locates.
Print Assumptions C12_pack_stack_shape.
