(* C16 -- The code cache survives crashes and concurrent definitions.
   Model: Kernel/Cache.v: any number of processes, each a small-step program (load, decide, remove stale bytecode,
   write a private temporary file, atomic replace, reload, verify, install), interleaved arbitrarily on one shared
   directory; any process may crash between any two steps; stamps and bytecode caching chosen adversarially;
   the disk may initially hold anything (in particular a torn file left by a crashed pre-fix writer). *)
From Coq Require Import ZArith List Bool.
From Bisturi Require Import Kernel.Cache.
Import ListNotations.

(* safety: whatever happens, a process that installs code installs the code of its OWN declaration -- never a
   truncated module, never code generated for another declaration *)
Theorem C16_safe : forall (D : Type) (same_cookie : D -> D -> bool),
  (forall a b, same_cookie a b = true -> a = b) ->
  forall s w, wsteps D same_cookie {| disk := s; procs := [] |} w ->
  forall p d, In p (procs D w) -> at_pc D p = PInstalled D d -> d = own D p.
Proof. intros D sc H. exact (cache_safe_from_scratch D sc H). Qed.
(* progress: no content of the disk makes a definition fail: a live process can always take its next step *)
Theorem C16_progress : forall (D : Type) (same_cookie : D -> D -> bool) p s,
  (forall d, at_pc D p <> PInstalled D d) -> at_pc D p <> PCrashed D ->
  exists q s', pstep D same_cookie p s q s' /\ at_pc D q <> PCrashed D.
Proof. intros D sc. exact (cache_progress D sc). Qed.
(* the pre-fix protocol (in-place write in four steps, cookie second): a crash after the cookie line leaves a file
   that the next definition of the same declaration accepts although it holds no code (finding D7, repaired) *)
Theorem C16_refuted_legacy : forall (D : Type) (same_cookie : D -> D -> bool) (d : D), same_cookie d d = true ->
  exists a, legacy_hit D same_cookie d a = true /\ legacy_usable D a = false.
Proof. intros D sc. exact (legacy_refuted_torn D sc). Qed.

Print Assumptions C16_safe.
Print Assumptions C16_progress.
Print Assumptions C16_refuted_legacy.
