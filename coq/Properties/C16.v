(* C16 -- The code cache survives crashes and concurrent definitions.
   Model: Kernel/Cache.v: any number of processes, each a small-step program (load, decide, remove stale bytecode,
   write a private temporary file, atomic replace, reload, verify, install), interleaved arbitrarily on one shared
   directory; any process may crash between any two steps; stamps and bytecode caching chosen adversarially;
   the disk may initially hold anything (in particular a torn file left by a crashed pre-fix writer).
   Kernel/CacheTmp.v refines it with the temporary files themselves ("<module>.py.<pid>.tmp", opened with mode 'w':
   create or truncate) and process ids that are RECYCLED once their process is dead: a crash leaves a whole or a torn
   temporary file behind and a later process may get the same pid. *)
From Coq Require Import ZArith List Bool.
From Bisturi Require Import Kernel.Cache Kernel.CacheTmp.
Import ListNotations.

(* safety: whatever happens, a process that installs code installs the code of its OWN declaration -- never a
   truncated module, never code generated for another declaration *)
Theorem C16_safe : forall (D : Type) (same_cookie : D -> D -> bool),
  (forall a b, same_cookie a b = true -> a = b) ->
  forall s w, wsteps D same_cookie {| disk := s; procs := [] |} w ->
  forall p d, In p (procs D w) -> at_pc D p = PInstalled D d -> d = own D p.
Proof. intros D sc H. exact (cache_safe_from_scratch D sc H). Qed.
(* progress: no content of the disk makes a definition fail: a live process can always take its next step *)
Theorem C16_progress : forall (D : Type) (same_cookie : D -> D -> bool) p s,
  (forall d, at_pc D p <> PInstalled D d) -> at_pc D p <> PCrashed D ->
  exists q s', pstep D same_cookie p s q s' /\ at_pc D q <> PCrashed D.
Proof. intros D sc. exact (cache_progress D sc). Qed.
(* the pre-fix protocol (in-place write in four steps, cookie second): a crash after the cookie line leaves a file
   that the next definition of the same declaration accepts although it holds no code (finding D7, repaired) *)
Theorem C16_refuted_legacy : forall (D : Type) (same_cookie : D -> D -> bool) (d : D), same_cookie d d = true ->
  exists a, legacy_hit D same_cookie d a = true /\ legacy_usable D a = false.
Proof. intros D sc. exact (legacy_refuted_torn D sc). Qed.

(* ---- with the temporary files and recycled pids modelled (Kernel/CacheTmp.v) ---- *)
(* the refined system simulates the abstract one (erase pids and temporary files) ... *)
Theorem C16_tmp_refines : forall (D : Type) (same_cookie : D -> D -> bool) (s0 : fs2 D) (w : world2 D),
  wsteps2 D same_cookie (init2 D s0) w ->
  wsteps D same_cookie {| disk := base D s0; procs := [] |} (erase_world D w).
Proof. exact refines. Qed.
(* ... so safety carries over, from ANY initial disk and ANY leftover temporary files ... *)
Theorem C16_tmp_safe : forall (D : Type) (same_cookie : D -> D -> bool),
  (forall a b : D, same_cookie a b = true -> a = b) ->
  forall (s0 : fs2 D) (w : world2 D), wsteps2 D same_cookie (init2 D s0) w ->
  forall (p : proc2 D) (d : D), In p (procs2 D w) -> p_pc D p = PInstalled D d -> d = p_own D p.
Proof. exact cache_tmp_safe. Qed.
(* ... and in every reachable world a live process can take its next step: a temporary file left behind under ITS pid by
   a crashed earlier process is simply overwritten *)
Theorem C16_tmp_progress : forall (D : Type) (same_cookie : D -> D -> bool) (s0 : fs2 D) (w : world2 D),
  wsteps2 D same_cookie (init2 D s0) w ->
  forall p : proc2 D, In p (procs2 D w) -> (forall d : D, p_pc D p <> PInstalled D d) -> p_pc D p <> PCrashed D ->
  exists (q : proc2 D) (s' : fs2 D), pstep2 D same_cookie p (disk2 D w) q s' /\ p_pc D q <> PCrashed D.
Proof. exact cache_tmp_progress. Qed.
(* for contrast, EXCLUSIVE creation of the temporary file (mode 'x', seeded change S87): a process with pid 1 dies during
   or after its write; a new process with pid 1 reaches the write step and can only crash, for ever *)
Theorem C16_exclusive_create_stuck : forall (D : Type) (same_cookie : D -> D -> bool) (d : D) (torn : bool),
  exists (w : world2 D) (p : proc2 D),
    w = stuck_world D d torn /\ wsteps2x D same_cookie (init2 D (empty_fs2 D)) w /\
    nth_error (procs2 D w) 0 = Some {| pid2 := 1; p_own := d; p_pc := PCrashed D |} /\
    nth_error (procs2 D w) 1 = Some p /\ pid2 D p = 1 /\ p_pc D p = PRemoved D /\ running D p = true /\
    (forall (q : proc2 D) (s' : fs2 D), pstep2x D same_cookie p (disk2 D w) q s' -> p_pc D q = PCrashed D).
Proof. exact exclusive_create_stuck. Qed.

Print Assumptions C16_safe.
Print Assumptions C16_progress.
Print Assumptions C16_refuted_legacy.
Print Assumptions C16_tmp_refines.
Print Assumptions C16_tmp_safe.
Print Assumptions C16_tmp_progress.
Print Assumptions C16_exclusive_create_stuck.
