(* C06 -- Byte-string fields take exactly the declared bytes or stop at the first delimiter.
   Model: Kernel/DataK.v (tied to bisturi/field.py class Data by Bridge/DataBridge.v and harness/props/C06.py). *)
From Coq Require Import ZArith List Bool.
From Bisturi Require Import Base.Bytes Kernel.DataK Proofs.DataProofs.
Import ListNotations. Open Scope Z_scope.

(* sized: exactly the declared number of bytes, all inside the input; negative or short is an error *)
Theorem C06_sized : forall raw offset bc v o', 0 <= offset -> data_sized raw offset bc = Some (v, o') ->
  0 <= bc /\ o' = offset + bc /\ blen v = bc /\ v = slice raw offset (offset + bc) /\ (0 < bc -> offset + bc <= blen raw).
Proof. exact data_sized_ok. Qed.
Theorem C06_sized_complete : forall raw offset bc, 0 <= offset -> 0 <= bc -> offset + bc <= blen raw ->
  data_sized raw offset bc = Some (slice raw offset (offset + bc), offset + bc).
Proof. exact data_sized_complete. Qed.
Theorem C06_sized_negative : forall raw offset bc, bc < 0 -> data_sized raw offset bc = None.
Proof. exact data_sized_neg. Qed.
Theorem C06_sized_short : forall raw offset bc, 0 <= offset -> 0 < bc -> blen raw < offset + bc -> data_sized raw offset bc = None.
Proof. exact data_sized_short. Qed.

(* bytes.find: the FIRST occurrence wholly inside the window *)
Theorem C06_find_first : forall hay needle i, find hay needle = Some i ->
  occurs_at needle hay i /\ forall j, 0 <= j < i -> ~ occurs_at needle hay j.
Proof. exact find_least. Qed.
Theorem C06_find_complete : forall hay needle j, occurs_at needle hay j -> exists i, find hay needle = Some i /\ i <= j.
Proof. exact find_complete. Qed.
Theorem C06_window : forall raw offset sbl, 0 <= offset ->
  window raw offset sbl = match sbl with
                          | Some l => if l =? 0 then slice raw offset (blen raw) else slice raw offset (offset + l)
                          | None => slice raw offset (blen raw)
                          end.
Proof. exact window_spec. Qed.
(* delimited by a marker: everything up to the first occurrence in the window, delimiter included or not,
   cursor just past it; a missing delimiter is an error *)
Theorem C06_marker : forall raw offset sbl marker include v o', 0 <= offset ->
  data_marker raw offset sbl marker include = Some (v, o') ->
  exists c, find (window raw offset sbl) marker = Some c /\ o' = offset + c + blen marker /\
            v = slice raw offset (offset + (if include then c + blen marker else c)).
Proof. exact data_marker_ok. Qed.
Theorem C06_marker_complete : forall raw offset sbl marker include c, find (window raw offset sbl) marker = Some c ->
  data_marker raw offset sbl marker include =
  Some (slice raw offset (offset + (if include then c + blen marker else c)), offset + c + blen marker).
Proof. exact data_marker_complete. Qed.
Theorem C06_marker_missing : forall raw offset sbl marker include,
  find (window raw offset sbl) marker = None -> data_marker raw offset sbl marker include = None.
Proof. exact data_marker_none. Qed.
Theorem C06_value_delimiter_free : forall raw offset sbl marker v o', 0 <= offset -> offset <= blen raw -> marker <> [] ->
  data_marker raw offset sbl marker false = Some (v, o') -> forall j, ~ occurs_at marker v j.
Proof. exact data_marker_value_marker_free. Qed.
(* regex of the closed class: leftmost match, first alternative, greedy byte runs *)
Theorem C06_regex : forall raw offset sbl r include v o' d, 0 <= offset -> data_regex raw offset sbl r include = Some (v, o', d) ->
  exists st en, re_search r (window raw offset sbl) = Some (st, en) /\ o' = offset + en /\
                v = slice raw offset (offset + (if include then en else st)) /\
                d = (if include then [] else slice raw (offset + st) (offset + en)).
Proof. exact data_regex_ok. Qed.
Theorem C06_regex_leftmost : forall r hay st en, re_search r hay = Some (st, en) ->
  0 <= st /\ match_here r (slice_from hay st) = Some (en - st) /\ forall j, 0 <= j < st -> match_here r (slice_from hay j) = None.
Proof. exact re_search_leftmost. Qed.
Theorem C06_regex_first_alternative : forall r hay n, match_here r hay = Some n <->
  exists pre a post, r = pre ++ a :: post /\ alt_matches a hay n /\ forall a', In a' pre -> match_alt a' hay = None.
Proof. exact match_here_spec. Qed.
Theorem C06_regex_missing : forall raw offset sbl r include,
  re_search r (window raw offset sbl) = None -> data_regex raw offset sbl r include = None.
Proof. exact data_regex_none. Qed.
Theorem C06_eos : forall raw offset, 0 <= offset <= blen raw -> data_eos raw offset = (slice_from raw offset, blen raw).
Proof. exact data_eos_spec. Qed.
(* pack: value followed by the excluded literal delimiter, which parses back to the value *)
Theorem C06_pack_unpack : forall marker v rest, (forall j, j < blen v -> ~ occurs_at marker (v ++ marker) j) ->
  data_marker (data_pack v marker ++ rest) 0 None marker false = Some (v, blen v + blen marker).
Proof. exact data_pack_unpack_marker'. Qed.
(* ... whatever the bytes of the value are: a value that already ends with the delimiter (or contains it) is followed by one more *)
Theorem C06_pack_exact : forall v marker, data_pack v marker = v ++ marker /\ blen (data_pack v marker) = blen v + blen marker.
Proof. intros v marker. split; [reflexivity | unfold data_pack, blen; rewrite app_length, Nat2Z.inj_add; reflexivity]. Qed.
Example C06_pack_value_ending_with_marker : data_pack [7; 13; 10] [13; 10] = [7; 13; 10; 13; 10] /\ data_pack [0] [0] = [0; 0].
Proof. vm_compute. split; reflexivity. Qed.

Example C06_example :
  find [1; 1; 2] [1; 2] = Some 1 /\ data_marker [9; 1; 2; 3] 0 (Some 2) [1; 2] false = None /\
  data_marker [9; 1; 2; 3] 0 (Some 3) [1; 2] false = Some ([9], 3) /\
  re_search [ALit [1; 2]; APlus 1] [3; 1; 1; 2] = Some (1, 3) /\ data_sized [1; 2] 0 (-1) = None.
Proof. vm_compute. repeat split; reflexivity. Qed.

Print Assumptions C06_pack_exact.
Print Assumptions C06_sized.
Print Assumptions C06_sized_complete.
Print Assumptions C06_sized_negative.
Print Assumptions C06_sized_short.
Print Assumptions C06_find_first.
Print Assumptions C06_find_complete.
Print Assumptions C06_window.
Print Assumptions C06_marker.
Print Assumptions C06_marker_complete.
Print Assumptions C06_marker_missing.
Print Assumptions C06_value_delimiter_free.
Print Assumptions C06_regex.
Print Assumptions C06_regex_leftmost.
Print Assumptions C06_regex_first_alternative.
Print Assumptions C06_regex_missing.
Print Assumptions C06_eos.
Print Assumptions C06_pack_unpack.
