(* C01 -- Parse-then-serialize reproduces the parsed bytes.
   Model: Model/Unpack.v (parser with its ghost trace of consumed chunks), Model/Pack.v (serializer), Model/Codegen.v
   (the generated code, chosen per class by the class options), Kernel/Frag.v (output buffer and its sparse-array
   specification).

   FULL STATEMENT (the property): for every declaration of the supported language, every input and start offset on
   which unpack succeeds, pack() of the result is the sparse array holding every consumed chunk at its position
   relative to the start offset and '.' elsewhere, and raises PacketError exactly when two consumed chunks overlap.
   PROVED BELOW: exactly that (C01_roundtrip), for the code each class actually runs (generated or generic, per
   option), for every class table satisfying `ct_rtb off` and `ct_bits_ok` -- the whole language, bit runs included
   (`ct_bits_ok` is what `describe` produces: C01_describe_bits_ok) -- EXCEPT
     * what the property itself excludes (a regex delimiter not kept in the value);
     * start-of-data positioning with an incompatible start offset: there the statement is FALSE of the code
       (C01_offset_refuted, finding D10);
   and under three hypotheses the proof needed (each with its refutation in Proofs/RoundTrip.v): the input consists
   of bytes, no chunk starts beyond the end of the input or before the start offset.
   C01_roundtrip_partial is the earlier theorem (generic loop, no bit runs), kept because other files refer to it. *)
From Coq Require Import ZArith List Bool.
From Bisturi Require Import Base.Bytes Kernel.IntCodec Kernel.Align Kernel.Frag Model.Value Model.Decl Model.Unpack Model.Pack
                            Model.Wf Model.Wf2 Model.Wf3 Model.WfBits Model.Codegen
                            Proofs.FragProofs Proofs.RoundTrip Proofs.RoundTripFull.
From Bisturi Require Proofs.EqMore.
Import ListNotations. Open Scope Z_scope.

(* the property, for the code each class runs (generated or generic), bit runs included *)
Theorem C01_roundtrip : forall fuel host dl ct raw c off s e t,
  wf_bytes raw -> ct_distinct ct = true -> ct_rtb off ct = true -> ct_bits_ok ct = true ->
  ct_wf ct = true -> ct_sizes_ok ct = true -> 0 <= off ->
  unpack_any fuel host ct raw c off = POk (VPkt c s) e t -> trace_from off t -> trace_in raw t ->
  match fold_a aempty (chunk_ops off t) with
  | Some a => exists v', pack_any_top fuel host dl ct c s = PBytes (a_tobytes a) v'
  | None => exists st, pack_any_top fuel host dl ct c s = PErr st
  end.
Proof. exact roundtrip_bytes_any. Qed.

(* the same for the generic field loop alone *)
Theorem C01_roundtrip_generic : forall fuel host dl ct raw c off s e t,
  wf_bytes raw -> ct_distinct ct = true -> ct_rtb off ct = true -> ct_bits_ok ct = true -> 0 <= off ->
  unpack_pkt fuel host ct raw c off = POk (VPkt c s) e t -> trace_from off t -> trace_in raw t ->
  match fold_a aempty (chunk_ops off t) with
  | Some a => exists v', pack_top fuel host dl ct c s = PBytes (a_tobytes a) v'
  | None => exists st, pack_top fuel host dl ct c s = PErr st
  end.
Proof. exact roundtrip_bytes_bits. Qed.

(* the metaclass only builds well-formed bit runs (every declared width at least one bit) *)
Theorem C01_describe_bits_ok : forall p k, pclass_bits_pos p = true -> describe p = Some k -> class_bits_ok k = true.
Proof. exact describe_bits_ok. Qed.

Theorem C01_roundtrip_partial : forall fuel host dl ct raw c off s e t,
  wf_bytes raw -> ct_distinct ct = true -> ct_rt off ct = true -> 0 <= off ->
  unpack_pkt fuel host ct raw c off = POk (VPkt c s) e t -> trace_from off t -> trace_in raw t ->
  match fold_a aempty (chunk_ops off t) with
  | Some a => exists v', pack_top fuel host dl ct c s = PBytes (a_tobytes a) v'
  | None => exists st, pack_top fuel host dl ct c s = PErr st
  end.
Proof. exact roundtrip_bytes. Qed.

(* the inductive core: serializing into any buffer replays exactly the inserts "chunk at position - base" *)
Theorem C01_trace_symmetry : forall fuel host dl ct raw c off base v e t fr,
  wf_bytes raw -> ct_distinct ct = true -> ct_rtb base ct = true -> ct_bits_ok ct = true -> 0 <= base <= off -> cur fr = off - base ->
  unpack_pkt fuel host ct raw c off = POk v e t -> trace_from base t -> trace_in raw t ->
  exists s, v = VPkt c s /\
    match ins_trace base t fr with
    | Frag.Ok fr1 => exists v' fr2, pack_pkt fuel host dl ct c s fr = QOk v' fr2 /\ same_content fr2 fr1 /\ cur fr2 = e - base
    | _ => exists st, pack_pkt fuel host dl ct c s fr = QFail st
    end.
Proof. exact roundtrip_trace_bits. Qed.

(* class tables built by the metaclass always have distinct field indices *)
Theorem C01_describe_distinct : forall p k, describe p = Some k -> nodupb (fidxs (cc_fields k)) = true.
Proof. exact describe_distinct. Qed.

(* D10: a = Int(1); b = Int(1).aligned(4) [reference: start of data]; parsed at offset 1 of b"X\x01..\x02" and
   serialized: b is placed at 4 (relative to the output), not at 3 = 4 - 1 *)
Definition d10_ct : ctab :=
  [(0, {| cc_conf := empty_conf; cc_gen_pack := false; cc_gen_unpack := false; cc_vectorize := true;
          cc_fields := [CElem 0 (ELeafE (LInt 1 false None (VInt 0))); CMove 1 (MConst 4) RBegins true;
                        CElem 1 (ELeafE (LInt 1 false None (VInt 0)))] |})].
Theorem C01_offset_refuted :
  ct_rt 1 d10_ct = false /\ ct_rt 0 d10_ct = true /\
  unpack_pkt 5 false d10_ct [88; 1; 46; 46; 2] 0 1 =
    POk (VPkt 0 [(FN 0, VInt 1); (FN 1, VInt 2)]) 5 [TChunk 1 [1]; TMove 4; TChunk 4 [2]] /\
  pack_top 5 false (fun _ _ => []) d10_ct 0 [(FN 0, VInt 1); (FN 1, VInt 2)] =
    PBytes [1; 46; 46; 46; 2] (VPkt 0 [(FN 0, VInt 1); (FN 1, VInt 2)]).
Proof. vm_compute. repeat split; reflexivity. Qed.

Example C01_example :
  exists s e t,
    unpack_pkt 5 true rt_ex_ct rt_ex_raw 0 2 = POk (VPkt 0 s) e t /\
    ct_rt 2 rt_ex_ct = true /\ ct_distinct rt_ex_ct = true /\ wf_bytes rt_ex_raw /\
    trace_from 2 t /\ trace_in rt_ex_raw t /\
    pack_top 5 true rt_dl0 rt_ex_ct 0 s = PBytes [2; 46; 1; 2; 5; 46; 6; 8] (VPkt 0 s).
Proof. exact roundtrip_nonvacuous. Qed.

(* non-vacuity of C01_roundtrip: a described class with two bit runs, generated code on both sides *)
Example C01_example_full :   exists k s e t,
    describe rtf_ex_pc = Some k /\ pclass_bits_pos rtf_ex_pc = true /\
    let ct := [(0, k)] in
    unpack_any 3 true ct rtf_ex_raw 0 2 = POk (VPkt 0 s) e t /\
    slot_get s (FN 0) = Some (VInt 5) /\ slot_get s (FN 1) = Some (VInt 11) /\
    slot_get s (FN 3) = Some (VInt 1) /\ slot_get s (FN 4) = Some (VInt 564) /\
    ct_rtb 2 ct = true /\ ct_bits_ok ct = true /\ ct_distinct ct = true /\ ct_wf ct = true /\
    ct_sizes_ok ct = true /\ wf_bytes rtf_ex_raw /\ trace_from 2 t /\ trace_in rtf_ex_raw t /\
    pack_any_top 3 true rt_dl0 ct 0 s = PBytes [171; 7; 18; 52; 1; 2] (VPkt 0 s).
Proof. exact roundtrip_any_nonvacuous. Qed.
(* the nesting budget (`fuel`, a device of the model: python's recursion has none) never shows in a result: a parse that
   succeeds succeeds with the same value, end offset and consumed chunks under every larger budget, and two successful
   parses of one input agree whatever their budgets *)
Theorem C01_unpack_fuel_irrelevant : forall host ct raw f f' c off v e t, (f <= f')%nat ->
  unpack_any f host ct raw c off = POk v e t -> unpack_any f' host ct raw c off = POk v e t.
Proof. exact Proofs.EqMore.unpack_any_fuel_le. Qed.
Theorem C01_unpack_deterministic : forall host ct raw f1 f2 c off v1 e1 t1 v2 e2 t2,
  unpack_any f1 host ct raw c off = POk v1 e1 t1 -> unpack_any f2 host ct raw c off = POk v2 e2 t2 ->
  v1 = v2 /\ e1 = e2 /\ t1 = t2.
Proof. exact Proofs.EqMore.unpack_any_deterministic. Qed.

Print Assumptions C01_roundtrip.
Print Assumptions C01_roundtrip_generic.
Print Assumptions C01_describe_bits_ok.
Print Assumptions C01_roundtrip_partial.
Print Assumptions C01_trace_symmetry.
Print Assumptions C01_describe_distinct.
Print Assumptions C01_offset_refuted.
Print Assumptions C01_unpack_fuel_irrelevant.
Print Assumptions C01_unpack_deterministic.
