(* placeholder until Proofs/RoundTrip.v lands *)
From Bisturi Require Import Model.Canon.
Theorem C01_stub : FUEL = 40. Proof. reflexivity. Qed.
Print Assumptions C01_stub.
