(* C01 -- Parse-then-serialize reproduces the parsed bytes.
   Model: Model/Unpack.v (parser with its ghost trace of consumed chunks), Model/Pack.v (serializer), Kernel/Frag.v
   (output buffer and its sparse-array specification).

   FULL STATEMENT (the property): for every declaration of the supported language, every input and start offset on
   which unpack succeeds, pack() of the result is the sparse array holding every consumed chunk at its position
   relative to the start offset and '.' elsewhere, and raises PacketError exactly when two consumed chunks overlap.
   PROVED BELOW (`_partial`): exactly that, for every class table satisfying `ct_rt off` -- i.e. everything EXCEPT
     * runs of bit fields (CBits): their round trip is Properties/C07.C07_unpack_pack at kernel level, and the
       whole-packet correspondence (harness/props/C01.py) covers them on the implementation;
     * what the property itself excludes (a regex delimiter not kept in the value);
     * start-of-data positioning with an incompatible start offset: there the statement is FALSE of the code
       (C01_offset_refuted, finding D10);
   and under three hypotheses the proof needed (each with its refutation in Proofs/RoundTrip.v): the input consists
   of bytes, no chunk starts beyond the end of the input or before the start offset.
   The theorems speak of the generic field loop; Properties/C03 proves the generated code equivalent to it. *)
From Coq Require Import ZArith List Bool.
From Bisturi Require Import Base.Bytes Kernel.IntCodec Kernel.Align Kernel.Frag Model.Value Model.Decl Model.Unpack Model.Pack
                            Model.Wf3 Proofs.FragProofs Proofs.RoundTrip.
Import ListNotations. Open Scope Z_scope.

Theorem C01_roundtrip_partial : forall fuel host dl ct raw c off s e t,
  wf_bytes raw -> ct_distinct ct = true -> ct_rt off ct = true -> 0 <= off ->
  unpack_pkt fuel host ct raw c off = POk (VPkt c s) e t -> trace_from off t -> trace_in raw t ->
  match fold_a aempty (chunk_ops off t) with
  | Some a => exists v', pack_top fuel host dl ct c s = PBytes (a_tobytes a) v'
  | None => exists st, pack_top fuel host dl ct c s = PErr st
  end.
Proof. exact roundtrip_bytes. Qed.

(* the inductive core: serializing into any buffer replays exactly the inserts "chunk at position - base" *)
Theorem C01_trace_symmetry : forall fuel host dl ct raw c off base v e t fr,
  wf_bytes raw -> ct_distinct ct = true -> ct_rt base ct = true -> 0 <= base <= off -> cur fr = off - base ->
  unpack_pkt fuel host ct raw c off = POk v e t -> trace_from base t -> trace_in raw t ->
  exists s, v = VPkt c s /\
    match ins_trace base t fr with
    | Frag.Ok fr1 => exists v' fr2, pack_pkt fuel host dl ct c s fr = QOk v' fr2 /\ same_content fr2 fr1 /\ cur fr2 = e - base
    | _ => exists st, pack_pkt fuel host dl ct c s fr = QFail st
    end.
Proof. exact roundtrip_trace. Qed.

(* class tables built by the metaclass always have distinct field indices *)
Theorem C01_describe_distinct : forall p k, describe p = Some k -> nodupb (fidxs (cc_fields k)) = true.
Proof. exact describe_distinct. Qed.

(* D10: a = Int(1); b = Int(1).aligned(4) [reference: start of data]; parsed at offset 1 of b"X\x01..\x02" and
   serialized: b is placed at 4 (relative to the output), not at 3 = 4 - 1 *)
Definition d10_ct : ctab :=
  [(0, {| cc_conf := empty_conf; cc_gen_pack := false; cc_gen_unpack := false; cc_vectorize := true;
          cc_fields := [CElem 0 (ELeafE (LInt 1 false None (VInt 0))); CMove 1 (MConst 4) RBegins true;
                        CElem 1 (ELeafE (LInt 1 false None (VInt 0)))] |})].
Theorem C01_offset_refuted :
  ct_rt 1 d10_ct = false /\ ct_rt 0 d10_ct = true /\
  unpack_pkt 5 false d10_ct [88; 1; 46; 46; 2] 0 1 =
    POk (VPkt 0 [(FN 0, VInt 1); (FN 1, VInt 2)]) 5 [TChunk 1 [1]; TMove 4; TChunk 4 [2]] /\
  pack_top 5 false (fun _ _ => []) d10_ct 0 [(FN 0, VInt 1); (FN 1, VInt 2)] =
    PBytes [1; 46; 46; 46; 2] (VPkt 0 [(FN 0, VInt 1); (FN 1, VInt 2)]).
Proof. vm_compute. repeat split; reflexivity. Qed.

Example C01_example :
  exists s e t,
    unpack_pkt 5 true rt_ex_ct rt_ex_raw 0 2 = POk (VPkt 0 s) e t /\
    ct_rt 2 rt_ex_ct = true /\ ct_distinct rt_ex_ct = true /\ wf_bytes rt_ex_raw /\
    trace_from 2 t /\ trace_in rt_ex_raw t /\
    pack_top 5 true rt_dl0 rt_ex_ct 0 s = PBytes [2; 46; 1; 2; 5; 46; 6; 8] (VPkt 0 s).
Proof. exact roundtrip_nonvacuous. Qed.

Print Assumptions C01_roundtrip_partial.
Print Assumptions C01_trace_symmetry.
Print Assumptions C01_describe_distinct.
Print Assumptions C01_offset_refuted.
