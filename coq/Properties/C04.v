(* C04 -- Unpack is strict: no value is decoded from bytes that are not there.
   Model: Model/Unpack.v + Model/Codegen.v (the interpreters bisturi really runs, generated or generic), with
   the repaired decoders (D1: short slices rejected; D2: negative cursors rejected).  The ghost trace lists every
   (position, bytes) a leaf consumed. *)
From Coq Require Import ZArith List Bool.
From Bisturi Require Import Base.Bytes Kernel.IntCodec Model.Value Model.Decl Model.Unpack Model.Codegen Model.Wf Model.Wf2
                            Proofs.StrictProofs.
Import ListNotations. Open Scope Z_scope.

(* unpack succeeds only if every chunk it consumed lies inside the input, at a non-negative position, and is
   literally the input's bytes there -- for every declaration, input and start offset *)
Theorem C04_strict : forall fuel host ct raw c off v e t,
  ct_wf ct = true -> ct_sizes_ok ct = true -> 0 <= off ->
  unpack_any fuel host ct raw c off = POk v e t -> 0 <= e /\ Forall (chunk_ok raw) t.
Proof. exact unpack_any_strict. Qed.
Theorem C04_strict_generic : forall fuel host ct raw c off v e t,
  ct_wf ct = true -> 0 <= off ->
  unpack_pkt fuel host ct raw c off = POk v e t -> 0 <= e /\ Forall (chunk_ok raw) t.
Proof. exact unpack_pkt_strict. Qed.
(* every leaf is decoded from exactly as many bytes as its declaration requires: n for an integer of n bytes
   (whose value is the decode of exactly those bytes), the evaluated size for a sized string, value + delimiter
   for a delimited one *)
Theorem C04_leaf_exact : forall host raw cf c name l s off v o' t,
  0 <= off -> unpack_leaf host raw cf c name l s off = Ok (v, o', t) ->
  0 <= o' /\ Forall (chunk_ok raw) t /\
  exists b, In (TChunk off b) t /\ b = slice raw off (off + blen b) /\
    match l with
    | LInt n signed fe _ => 1 <= n -> blen b = n /\ o' = off + n /\ off + n <= blen raw /\
        exists x, v = VInt x /\ decode n signed (is_bigendian (resolve_endianness fe (lc_endianness cf)) host) b = Some x
    | LDataSized size _ _ => exists bc, eval_int (mkctx raw s off) size = Ok bc /\ 0 <= bc /\ blen b = bc /\ o' = off + bc /\ v = VBytes b
    | LDataMarker m incl _ => exists val, v = VBytes val /\ b = (if incl then val else val ++ m) /\ o' = off + blen b
    | LDataRegex _ _ _ => o' = off + blen b
    | LDataEos _ => v = VBytes b
    end.
Proof. exact unpack_leaf_strict. Qed.
(* cutting an input anywhere: whatever still parses consumed only bytes before the cut -- never a value made of
   fewer bytes, zero-extended or fabricated *)
Theorem C04_truncation : forall fuel host ct raw c off cut v e t,
  ct_wf ct = true -> ct_sizes_ok ct = true -> 0 <= off -> 0 <= cut ->
  unpack_any fuel host ct (firstn (Z.to_nat cut) raw) c off = POk v e t ->
  Forall (fun x => match x with TChunk p b => b <> [] -> p + blen b <= cut | _ => True end) t.
Proof. exact unpack_any_truncation. Qed.

(* non-vacuity and the repaired defects as they would look: a 3-byte integer on a 1-byte input is an error *)
Example C04_example :
  let ct := [(0, {| cc_conf := empty_conf; cc_gen_pack := true; cc_gen_unpack := true; cc_vectorize := true;
                    cc_fields := [CElem 0 (ELeafE (LInt 3 false None (VInt 0)))] |})] in
  ct_wf ct = true /\ ct_sizes_ok ct = true /\
  unpack_any 5 false ct [1] 0 0 = PFail [(0, FN 0, 0)] /\
  unpack_any 5 false ct [1; 2; 3] 0 0 = POk (VPkt 0 [(FN 0, VInt 66051)]) 3 [TChunk 0 [1; 2; 3]].
Proof. vm_compute. repeat split; reflexivity. Qed.

Print Assumptions C04_strict.
Print Assumptions C04_strict_generic.
Print Assumptions C04_leaf_exact.
Print Assumptions C04_truncation.
