(* C10 -- Positioning and alignment act identically when parsing and serializing.
   Model: Kernel/Align.v (Move.unpack / Move.pack / per-element alignment of Sequence; tied to
   bisturi/structural_fields.py by Bridge/MoveBridge.v and harness/props/C10.py). *)
From Coq Require Import ZArith List Bool.
From Bisturi Require Import Kernel.Align Proofs.AlignProofs.
Import ListNotations. Open Scope Z_scope.

(* same function of (cursor, innermost packet position) on input and on output: the same position relative
   to position 0 of the data *)
Theorem C10_same_function : forall al r mv c ipp, move_pack al r mv c ipp = move_unpack al r mv c ipp.
Proof. exact move_pack_is_move_unpack. Qed.

(* a packet parsed at start offset b is laid out identically, relative to its own start, when serialized --
   for the innermost-packet and current-position references always; for the start-of-data reference only
   when b = 0 (or, for alignment, when the alignment divides b): see C10_begins_refuted, finding D10 *)
Theorem C10_symmetry : forall al r mv c ipp b o, 0 <= b -> (al = true -> 0 < mv) ->
  (r = RBegins -> if al then b mod mv = 0 else b = 0) ->
  move_unpack al r mv c ipp = Some o -> b <= o -> move_pack al r mv (c - b) (ipp - b) = Some (o - b).
Proof. exact move_shift_unpack_to_pack. Qed.
Theorem C10_symmetry_conv : forall al r mv c ipp b o, 0 <= b -> (al = true -> 0 < mv) ->
  (r = RBegins -> if al then b mod mv = 0 else b = 0) ->
  move_pack al r mv (c - b) (ipp - b) = Some o -> move_unpack al r mv c ipp = Some (o + b).
Proof. exact move_shift_pack_to_unpack. Qed.
Theorem C10_begins_refuted : exists mv c ipp b o, 0 < b /\ move_unpack false RBegins mv c ipp = Some o /\ b <= o /\
  move_pack false RBegins mv (c - b) (ipp - b) <> Some (o - b).
Proof. exact move_begins_refuted. Qed.

(* alignment advances by the least amount, less than the alignment, that makes the position a multiple *)
Theorem C10_align_min : forall a c start, 0 < a -> exists d, align_to a c start = Some (c + d) /\ 0 <= d < a /\
  (c + d - start) mod a = 0 /\ forall d', 0 <= d' -> (c + d' - start) mod a = 0 -> d <= d'.
Proof. exact align_to_min. Qed.
Theorem C10_seq_align_min : forall a c, 0 < a -> exists d, seq_align a c = Some (c + d) /\ 0 <= d < a /\
  (c + d) mod a = 0 /\ forall d', 0 <= d' -> (c + d') mod a = 0 -> d <= d'.
Proof. exact seq_align_min. Qed.
Theorem C10_seq_align_shift : forall a c b, 0 < a -> b mod a = 0 ->
  seq_align a (c - b) = option_map (fun o => o - b) (seq_align a c).
Proof. exact seq_align_shift. Qed.
(* a position before the start of the data is an error on both sides (D2 fix) *)
Theorem C10_nonneg : forall al r mv c ipp o, move_unpack al r mv c ipp = Some o -> 0 <= o.
Proof. exact move_nonneg. Qed.

Example C10_example : move_unpack true RInner 4 7 2 = Some 10 /\ move_pack true RInner 4 5 0 = Some 8 /\
  move_unpack false RCur (-9) 4 0 = None.
Proof. vm_compute. repeat split; reflexivity. Qed.

Print Assumptions C10_same_function.
Print Assumptions C10_symmetry.
Print Assumptions C10_symmetry_conv.
Print Assumptions C10_begins_refuted.
Print Assumptions C10_align_min.
Print Assumptions C10_seq_align_min.
Print Assumptions C10_seq_align_shift.
Print Assumptions C10_nonneg.
