(* C05 -- Integer fields encode and decode exact two's-complement values.
   Model: Kernel/IntCodec.v (tied to bisturi/field.py by Bridge/IntBridge.v and by the correspondence
   check harness/props/C05.py).  This file holds only the property theorems, each closed by `exact`. *)
From Coq Require Import ZArith List Bool.
From Bisturi Require Import Base.Bytes Kernel.IntCodec Proofs.IntCodecProofs.
Import ListNotations. Open Scope Z_scope.

(* every representable value of every width n >= 1 encodes to exactly n bytes that decode back to it *)
Theorem C05_decode_encode : forall n s big v, 1 <= n -> int_lo n s <= v < int_hi n s ->
  exists bs, encode n s big v = Some bs /\ blen bs = n /\ wf_bytes bs /\ decode n s big bs = Some v.
Proof. exact decode_encode. Qed.

(* every n-byte pattern decodes to a representable value that encodes back to the same bytes *)
Theorem C05_encode_decode : forall n s big bs, 1 <= n -> blen bs = n -> wf_bytes bs ->
  exists v, decode n s big bs = Some v /\ int_lo n s <= v < int_hi n s /\ encode n s big v = Some bs.
Proof. exact encode_decode. Qed.

(* out of range: an error, never a wrapped, truncated or padded encoding *)
Theorem C05_range : forall n s big v, (v < int_lo n s \/ int_hi n s <= v) -> encode n s big v = None.
Proof. exact encode_range. Qed.

(* the decoded value IS the positional value in the stated byte order ... *)
Theorem C05_value_unsigned : forall n big bs, blen bs = n -> decode n false big bs = Some (unsigned_val big bs).
Proof. exact decode_unsigned. Qed.
Theorem C05_value_big : forall b r, unsigned_val true (b :: r) = b * 256 ^ Z.of_nat (length r) + unsigned_val true r.
Proof. exact unsigned_val_big_cons. Qed.
Theorem C05_value_little : forall bs, unsigned_val false bs = le_val bs.
Proof. exact unsigned_val_little. Qed.
(* ... minus 2^(8n) exactly when the top bit of the most significant byte is set *)
Theorem C05_value_signed : forall n big bs, 1 <= n -> blen bs = n -> wf_bytes bs ->
  decode n true big bs = Some (let u := unsigned_val big bs in
                               if 128 <=? hd 0 (if big then bs else rev bs) then u - 2 ^ (8 * n) else u).
Proof. exact decode_signed. Qed.

(* fewer (or more) than n bytes never decode *)
Theorem C05_short : forall n s big bs, blen bs <> n -> decode n s big bs = None.
Proof. exact decode_short. Qed.
Theorem C05_unpack_short : forall n s big raw offset, 0 <= offset -> 1 <= n -> blen raw < offset + n ->
  int_unpack n s big raw offset = None.
Proof. exact int_unpack_short. Qed.

(* the five endianness spellings and the class-level default *)
Theorem C05_endianness : forall host,
  (forall c, is_bigendian (resolve_endianness (Some EBig) c) host = true) /\
  (forall c, is_bigendian (resolve_endianness (Some ENetwork) c) host = true) /\
  (forall c, is_bigendian (resolve_endianness (Some ELittle) c) host = false) /\
  (forall c, is_bigendian (resolve_endianness (Some EOther) c) host = false) /\
  (forall c, is_bigendian (resolve_endianness (Some ELocal) c) host = host) /\
  is_bigendian (resolve_endianness None (Some EBig)) host = true /\
  is_bigendian (resolve_endianness None (Some ENetwork)) host = true /\
  is_bigendian (resolve_endianness None (Some ELittle)) host = false /\
  is_bigendian (resolve_endianness None (Some EOther)) host = false /\
  is_bigendian (resolve_endianness None (Some ELocal)) host = host /\
  is_bigendian (resolve_endianness None None) host = true.
Proof. exact resolve_table. Qed.

(* non-vacuity: a concrete 3-byte signed little-endian instance *)
Example C05_example :
  encode 3 true false (-2) = Some [254; 255; 255] /\ decode 3 true false [254; 255; 255] = Some (-2) /\
  encode 3 true false 8388608 = None /\ decode 3 true false [1; 2] = None.
Proof. vm_compute. repeat split; reflexivity. Qed.

Print Assumptions C05_decode_encode.
Print Assumptions C05_encode_decode.
Print Assumptions C05_range.
Print Assumptions C05_value_unsigned.
Print Assumptions C05_value_big.
Print Assumptions C05_value_little.
Print Assumptions C05_value_signed.
Print Assumptions C05_short.
Print Assumptions C05_unpack_short.
Print Assumptions C05_endianness.
