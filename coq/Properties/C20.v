(* C20 -- Packet equality is structural and total.
   Model: Model/Init.v pkt_eqb / pkt_neb / repr_names = Packet.__eq__ / != / the attributes __repr__ prints, as
   repaired by the D4 fix (a listed name that holds no value -- positioning pseudo-fields, Em -- is skipped).
   Totality: they are total functions; no attribute that holds no value is read (C20_repr_reads_only_set). *)
From Coq Require Import ZArith List Bool.
From Bisturi Require Import Base.Bytes Model.Value Model.Decl Model.Init Proofs.EqProofs.
Import ListNotations. Open Scope Z_scope.

Theorem C20_ne_is_negation : forall fuel ct a b, pkt_neb fuel ct a b = negb (pkt_eqb fuel ct a b).
Proof. exact pkt_neb_is_negb. Qed.
(* p == q exactly when same class and every listed attribute is unset on both sides or equal *)
Theorem C20_structural : forall fuel ct c1 s1 c2 s2,
  pkt_eqb (S fuel) ct (VPkt c1 s1) (VPkt c2 s2) = true <->
  c1 = c2 /\ exists k, ct_get ct c1 = Some k /\
    forall f, In f (field_names k) ->
      match slot_get s1 f, slot_get s2 f with
      | None, None => True
      | Some x, Some y => pkt_eqb fuel ct x y = true
      | _, _ => False
      end.
Proof. exact pkt_eqb_structural. Qed.
(* two parses of the same bytes (the same value) compare equal *)
Theorem C20_reflexive : forall fuel ct v, plain fuel ct v = true -> pkt_eqb fuel ct v v = true.
Proof. exact pkt_eqb_refl. Qed.
(* changing any one field makes them unequal; other classes and non-packets are unequal *)
Theorem C20_field_changed : forall fuel ct c s1 s2 k f x y,
  ct_get ct c = Some k -> In f (field_names k) -> slot_get s1 f = Some x -> slot_get s2 f = Some y ->
  pkt_eqb fuel ct x y = false -> pkt_eqb (S fuel) ct (VPkt c s1) (VPkt c s2) = false.
Proof. exact pkt_eqb_field_changed. Qed.
Theorem C20_other_class : forall fuel ct c1 s1 c2 s2, c1 <> c2 -> pkt_eqb fuel ct (VPkt c1 s1) (VPkt c2 s2) = false.
Proof. exact pkt_eqb_other_class. Qed.
Theorem C20_not_a_packet : forall fuel ct c s v, (forall c' s', v <> VPkt c' s') -> pkt_eqb (S fuel) ct (VPkt c s) v = false.
Proof. exact pkt_eqb_not_packet. Qed.
Theorem C20_repr_reads_only_set : forall ct v f, In f (repr_names ct v) -> exists c s x, v = VPkt c s /\ slot_get s f = Some x.
Proof. exact repr_names_set. Qed.

Print Assumptions C20_ne_is_negation.
Print Assumptions C20_structural.
Print Assumptions C20_reflexive.
Print Assumptions C20_field_changed.
Print Assumptions C20_other_class.
Print Assumptions C20_not_a_packet.
Print Assumptions C20_repr_reads_only_set.
