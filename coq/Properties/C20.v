(* C20 -- Packet equality is structural and total.
   Model: Model/Init.v pkt_eqb / pkt_neb / repr_names = Packet.__eq__ / != / the attributes __repr__ prints, as
   repaired by the D4 fix (a listed name that holds no value -- positioning pseudo-fields, Em -- is skipped).
   Totality: they are total functions; no attribute that holds no value is read (C20_repr_reads_only_set). *)
From Coq Require Import ZArith List Bool.
From Bisturi Require Import Base.Bytes Model.Value Model.Decl Model.Unpack Model.Codegen Model.Init Proofs.EqProofs Proofs.EqMore.
Import ListNotations. Open Scope Z_scope.

Theorem C20_ne_is_negation : forall fuel ct a b, pkt_neb fuel ct a b = negb (pkt_eqb fuel ct a b).
Proof. exact pkt_neb_is_negb. Qed.
(* p == q exactly when same class and every listed attribute is unset on both sides or equal *)
Theorem C20_structural : forall fuel ct c1 s1 c2 s2,
  pkt_eqb (S fuel) ct (VPkt c1 s1) (VPkt c2 s2) = true <->
  c1 = c2 /\ exists k, ct_get ct c1 = Some k /\
    forall f, In f (field_names k) ->
      match slot_get s1 f, slot_get s2 f with
      | None, None => True
      | Some x, Some y => pkt_eqb fuel ct x y = true
      | _, _ => False
      end.
Proof. exact pkt_eqb_structural. Qed.
(* two parses of the same bytes (the same value) compare equal *)
Theorem C20_reflexive : forall fuel ct v, plain fuel ct v = true -> pkt_eqb fuel ct v v = true.
Proof. exact pkt_eqb_refl. Qed.
(* changing any one field makes them unequal; other classes and non-packets are unequal *)
Theorem C20_field_changed : forall fuel ct c s1 s2 k f x y,
  ct_get ct c = Some k -> In f (field_names k) -> slot_get s1 f = Some x -> slot_get s2 f = Some y ->
  pkt_eqb fuel ct x y = false -> pkt_eqb (S fuel) ct (VPkt c s1) (VPkt c s2) = false.
Proof. exact pkt_eqb_field_changed. Qed.
Theorem C20_other_class : forall fuel ct c1 s1 c2 s2, c1 <> c2 -> pkt_eqb fuel ct (VPkt c1 s1) (VPkt c2 s2) = false.
Proof. exact pkt_eqb_other_class. Qed.
Theorem C20_not_a_packet : forall fuel ct c s v, (forall c' s', v <> VPkt c' s') -> pkt_eqb (S fuel) ct (VPkt c s) v = false.
Proof. exact pkt_eqb_not_packet. Qed.
Theorem C20_repr_reads_only_set : forall ct v f, In f (repr_names ct v) -> exists c s x, v = VPkt c s /\ slot_get s f = Some x.
Proof. exact repr_names_set. Qed.

(* == is symmetric and transitive (python's == on the values included: integers and booleans mix) *)
Theorem C20_symmetric : forall fuel ct a b, pkt_eqb fuel ct a b = pkt_eqb fuel ct b a.
Proof. exact pkt_eqb_sym. Qed.
Theorem C20_transitive : forall fuel ct a b c,
  pkt_eqb fuel ct a b = true -> pkt_eqb fuel ct b c = true -> pkt_eqb fuel ct a c = true.
Proof. exact pkt_eqb_trans. Qed.
(* "two packets parsed from the same bytes therefore always compare equal": for EVERY declaration, input and offset, with no
   side condition (a parse hands out plain values only: absent optionals are None, skipped sequences []), whatever the nesting
   budget of either parse, in both directions, and != is False *)
Theorem C20_parsed_twice_equal : forall f1 f2 host ct raw c off v1 e1 t1 v2 e2 t2,
  unpack_any f1 host ct raw c off = POk v1 e1 t1 -> unpack_any f2 host ct raw c off = POk v2 e2 t2 ->
  v1 = v2 /\ e1 = e2 /\ t1 = t2 /\
  exists k, forall k', (k <= k')%nat ->
    pkt_eqb k' ct v1 v2 = true /\ pkt_eqb k' ct v2 v1 = true /\ pkt_neb k' ct v1 v2 = false /\ pkt_neb k' ct v2 v1 = false.
Proof. exact parsed_twice_equal_any. Qed.
(* the comparison does not depend on the nesting budget once it is large enough *)
Theorem C20_fuel_irrelevant : forall fuel ct a b, pkt_eqb fuel ct a b = true -> pkt_eqb (S fuel) ct a b = true.
Proof. exact pkt_eqb_fuel. Qed.
Example C20_parsed_example :
  unpack_any 3 true eqm_ct eqm_raw 0 0 =
    POk eqm_v 13 [TChunk 0 [2]; TChunk 1 [1]; TChunk 2 [65; 0]; TChunk 4 [2]; TChunk 5 [0]; TChunk 6 [254; 255];
                  TChunk 8 [7]; TChunk 9 [3]; TChunk 10 [66; 67; 0]] /\
  pkt_eqb 4 eqm_ct eqm_v eqm_v = true /\ pkt_neb 4 eqm_ct eqm_v eqm_v = false.
Proof. destruct eqm_example as (_ & H1 & _ & _ & _ & _ & H2 & H3). repeat split; assumption. Qed.

Print Assumptions C20_ne_is_negation.
Print Assumptions C20_structural.
Print Assumptions C20_reflexive.
Print Assumptions C20_field_changed.
Print Assumptions C20_other_class.
Print Assumptions C20_not_a_packet.
Print Assumptions C20_repr_reads_only_set.
Print Assumptions C20_symmetric.
Print Assumptions C20_transitive.
Print Assumptions C20_parsed_twice_equal.
Print Assumptions C20_fuel_irrelevant.
Print Assumptions C20_parsed_example.
