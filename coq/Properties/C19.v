(* C19 -- Default-constructed packets hold the declared defaults.
   Model: Model/Init.v (Packet.__init__: every field's init with the keyword dictionary; `complete` builds the
   objects a constructor call denotes, prototypes and nested defaults included). *)
From Coq Require Import ZArith List Bool.
From Bisturi Require Import Base.Bytes Model.Value Model.Decl Model.Init Proofs.InitProofs.
Import ListNotations. Open Scope Z_scope.

(* per kind: integers hold the given default (0 unless given: the constructor's default argument, carried in the
   declaration); a fixed byte string without a default holds NUL bytes of the declared size; a given default or
   a variable-size string hold what was given *)
Theorem C19_default_int : forall n s fe d, leaf_default (LInt n s fe d) = d.
Proof. exact default_int. Qed.
Theorem C19_default_fixed_data_nul : forall n, leaf_default (LDataSized (ELit (VInt n)) true (VBytes [])) = VBytes (repeat 0 (Z.to_nat n)).
Proof. exact default_data_fixed_nul. Qed.
Theorem C19_default_data_given : forall size c b x, leaf_default (LDataSized size c (VBytes (x :: b))) = VBytes (x :: b).
Proof. exact default_data_given. Qed.
Theorem C19_default_variable_data : forall size d, leaf_default (LDataSized size false d) = d.
Proof. exact default_data_variable. Qed.

(* every value-bearing field of a constructed packet holds the keyword's value if the keyword names it, and
   otherwise its own declared default (a copy of the prototype for a reference, the given or empty list for a
   repeated field, the given default or None for an optional one: `own_init`), whatever the other fields are *)
Theorem C19_defaults : forall rc fs kw s f,
  distinct_fields fs -> init_fields rc fs kw [] = Some s -> In f fs -> is_move f = false ->
  exists ov, own_init rc f kw = Some ov /\ slot_get s (FN (cf_index f)) = ov.
Proof. exact init_fields_slot. Qed.
(* keyword arguments override exactly the fields they name *)
Theorem C19_keywords_local : forall rc fs kw s s0 j,
  distinct_fields fs -> init_fields rc fs kw [] = Some s -> init_fields rc fs [] [] = Some s0 ->
  slot_get kw (FN j) = None -> slot_get s (FN j) = slot_get s0 (FN j).
Proof. exact init_fields_kw_local. Qed.

Print Assumptions C19_default_int.
Print Assumptions C19_default_fixed_data_nul.
Print Assumptions C19_default_data_given.
Print Assumptions C19_default_variable_data.
Print Assumptions C19_defaults.
Print Assumptions C19_keywords_local.
