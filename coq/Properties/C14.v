(* C14 -- Parsing depends only on the bytes it consumes.
   Model: Model/Unpack.v + Model/Codegen.v.  `ct_local`: no start-of-data reference, no per-element alignment,
   no callback looking at the offset or the raw buffer, positioning only forwards; `ct_local_weak`: the same
   without the forwards condition; `ct_closed`: no regex-delimited and no read-to-end field. *)
From Coq Require Import ZArith List Bool.
From Bisturi Require Import Base.Bytes Kernel.IntCodec Kernel.Align Model.Value Model.Decl Model.Unpack Model.Codegen Model.Wf Proofs.ContextProofs.
Import ListNotations. Open Scope Z_scope.

(* unpack(pre ++ raw, |pre| + off) is unpack(raw, off) with every position shifted by |pre| -- values, end
   offset, consumed chunks and error stacks alike, for successes and failures *)
Theorem C14_prefix : forall fuel host ct pre raw c off,
  ct_wf ct = true -> ct_local ct = true -> 0 <= off ->
  unpack_any fuel host ct (pre ++ raw) c (blen pre + off) = shift_pres (blen pre) (unpack_any fuel host ct raw c off).
Proof. exact unpack_any_prefix. Qed.
(* without the forwards condition the success direction still holds; the failure direction does not: a relative
   move to before the packet's own start fails on raw alone but reads the prefix bytes (finding D13) *)
Theorem C14_prefix_success : forall fuel host ct pre raw c off v e t,
  ct_wf ct = true -> ct_local_weak ct = true -> 0 <= off ->
  unpack_any fuel host ct raw c off = POk v e t ->
  unpack_any fuel host ct (pre ++ raw) c (blen pre + off) = POk v (e + blen pre) (map (shift_item (blen pre)) t).
Proof. exact unpack_any_prefix_ok. Qed.
(* bytes appended after the input never change a successful parse (no read-to-end field, no regex delimiter) *)
Theorem C14_suffix : forall fuel host ct raw post c off v e t,
  ct_wf ct = true -> ct_closed ct = true -> 0 <= off ->
  unpack_any fuel host ct raw c off = POk v e t ->
  unpack_any fuel host ct (raw ++ post) c off = POk v e t.
Proof. exact unpack_any_suffix. Qed.

(* D13: a = Int(1); b = Int(1).shift(-3): fails on b"\x01" at 0, reads the prefix when parsed at offset 3 *)
Definition d13_ct : ctab :=
  [(0, {| cc_conf := empty_conf; cc_gen_pack := false; cc_gen_unpack := false; cc_vectorize := true;
          cc_fields := [CElem 0 (ELeafE (LInt 1 false None (VInt 0))); CMove 1 (MConst (-3)) RCur false;
                        CElem 1 (ELeafE (LInt 1 false None (VInt 0)))] |})].
Theorem C14_prefix_refuted_backward_move :
  ct_wf d13_ct = true /\ ct_local_weak d13_ct = true /\ ct_local d13_ct = false /\
  unpack_any 5 false d13_ct [1] 0 0 = PFail [(1, FShift 1, 0)] /\
  unpack_any 5 false d13_ct ([80; 81; 82] ++ [1]) 0 3 =
    POk (VPkt 0 [(FN 0, VInt 1); (FN 1, VInt 81)]) 2 [TChunk 3 [1]; TMove 1; TChunk 1 [81]].
Proof. vm_compute. repeat split; reflexivity. Qed.

Print Assumptions C14_prefix.
Print Assumptions C14_prefix_success.
Print Assumptions C14_suffix.
Print Assumptions C14_prefix_refuted_backward_move.
