(* C17 -- Auto/AutoLength fields always read and serialize consistently.
   Model: Kernel/Desc.v (descriptor.py Auto/AutoLength with the drivers in Packet.__init__, unpack and the
   sync hook; tied by Bridge/DescBridge.v and harness/props/C17.py).  The theorems hold for every type T of
   tracked values and every compute function (len for AutoLength). *)
From Coq Require Import ZArith List Bool.
From Bisturi Require Import Kernel.Desc Proofs.DescProofs.
Import ListNotations. Open Scope Z_scope.

(* every history of set-tracked / set / delete / pack / construct / unpack: every read and every serialized
   value are those of the specification (explicit value if assigned and not deleted, else the computed one) *)
Theorem C17_refine : forall (T : Type) (compute : T -> Z) ops s a,
  Rd T s a -> c_run T compute s ops = a_run T compute a ops.
Proof. exact desc_refines. Qed.
Theorem C17_construct : forall (T : Type) t0 d kw, Rd T (c_construct T t0 d kw) {| a_tracked := t0; a_explicit := kw |}.
Proof. exact rd_construct. Qed.
Theorem C17_unpack : forall (T : Type) t p, Rd T (c_unpack T t p) {| a_tracked := t; a_explicit := None |}.
Proof. exact rd_unpack. Qed.
(* pack serializes exactly what the attribute reads as, and leaves the reading unchanged *)
Theorem C17_pack : forall (T : Type) (compute : T -> Z) s,
  snd (c_pack T compute s) = c_get T compute s /\ c_get T compute (fst (c_pack T compute s)) = c_get T compute s.
Proof. exact pack_serializes_read. Qed.
Theorem C17_read_after_set : forall (T : Type) (compute : T -> Z) a v, a_get T compute (fst (a_step T compute a (DSet T v))) = v.
Proof. exact a_read_after_set. Qed.
Theorem C17_read_after_delete : forall (T : Type) (compute : T -> Z) a,
  a_get T compute (fst (a_step T compute a (DDel T))) = compute (a_tracked T a).
Proof. exact a_read_after_del. Qed.
Theorem C17_read_tracks : forall (T : Type) (compute : T -> Z) a t, a_explicit T a = None ->
  a_get T compute (fst (a_step T compute a (DSetTracked T t))) = compute t.
Proof. exact a_read_tracks. Qed.

Print Assumptions C17_refine.
Print Assumptions C17_construct.
Print Assumptions C17_unpack.
Print Assumptions C17_pack.
Print Assumptions C17_read_after_set.
Print Assumptions C17_read_after_delete.
Print Assumptions C17_read_tracks.
