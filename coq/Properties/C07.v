(* C07 -- Bit fields partition their bytes MSB-first and never disturb neighbours.
   Model: Kernel/BitsK.v (tied to bisturi/field.py class Bits by Bridge/BitsBridge.v and by
   harness/props/C07.py).  Only property theorems here, each closed by `exact`. *)
From Coq Require Import ZArith List Bool.
From Bisturi Require Import Base.Bytes Kernel.BitsK Proofs.BitsProofs.
Import ListNotations. Open Scope Z_scope.

(* class definition: a run whose widths sum to 8k gets, for member i, shift = sum of the widths after i
   (most significant member first) and mask = (2^w - 1) << shift; the shared integer has k bytes *)
Theorem C07_compile : forall ws sm k, Forall (fun w => 0 <= w) ws -> bits_compile ws = Some (sm, k) ->
  zsum ws = 8 * k /\ length sm = length ws /\
  forall i w, nth_error ws i = Some w -> nth_error sm i = Some (suffix_sum ws i, mask_of w (suffix_sum ws i)).
Proof. exact bits_compile_ok. Qed.
Theorem C07_compile_accept : forall ws, zsum ws mod 8 = 0 -> exists sm, bits_compile ws = Some (sm, zsum ws / 8).
Proof. exact bits_compile_accept. Qed.
(* a run whose total width is not a multiple of 8 is rejected when the class is defined *)
Theorem C07_compile_reject : forall ws, zsum ws mod 8 <> 0 -> bits_compile ws = None.
Proof. exact bits_compile_reject. Qed.

(* unpack: each member gets exactly its own bit slice of the big-endian integer *)
Theorem C07_unpack : forall I w s, 0 <= w -> 0 <= s -> bits_get I (mask_of w s) s = (I / 2 ^ s) mod 2 ^ w.
Proof. exact bits_get_spec. Qed.

(* pack: whatever the values (any size, any sign) and whatever the stale shared integer, afterwards every
   member's slice holds its own value mod 2^w -- so no value can alter the bits of another member *)
Theorem C07_pack : forall ws sm k vs I0, Forall (fun w => 0 <= w) ws -> bits_compile ws = Some (sm, k) ->
  length vs = length ws -> 0 <= I0 < 2 ^ (8 * k) ->
  let R := bits_pack_all I0 sm vs in
  0 <= R < 2 ^ (8 * k) /\
  forall i w v, nth_error ws i = Some w -> nth_error vs i = Some v ->
                nth_error (bits_unpack_all R sm) i = Some (v mod 2 ^ w).
Proof. exact bits_pack_all_spec. Qed.
Theorem C07_pack_other_slice_untouched : forall I v w s w' s', 0 <= w -> 0 <= s -> 0 <= w' -> 0 <= s' ->
  (s' + w' <= s \/ s + w <= s') ->
  bits_get (bits_put I v (mask_of w s) s) (mask_of w' s') s' = bits_get I (mask_of w' s') s'.
Proof. exact bits_get_put_other. Qed.
Theorem C07_pack_stale_irrelevant : forall ws sm k vs I0 I1, Forall (fun w => 0 <= w) ws ->
  bits_compile ws = Some (sm, k) -> length vs = length ws -> 0 <= I0 < 2 ^ (8 * k) -> 0 <= I1 < 2 ^ (8 * k) ->
  bits_pack_all I0 sm vs = bits_pack_all I1 sm vs.
Proof. exact bits_pack_all_det. Qed.
(* round trip of a run *)
Theorem C07_unpack_pack : forall ws sm k I I0, Forall (fun w => 0 <= w) ws -> bits_compile ws = Some (sm, k) ->
  0 <= I < 2 ^ (8 * k) -> 0 <= I0 < 2 ^ (8 * k) -> bits_pack_all I0 sm (bits_unpack_all I sm) = I.
Proof. exact bits_unpack_pack. Qed.

Example C07_example :
  bits_compile [4; 4; 12; 4] = Some ([(20, 15728640); (16, 983040); (4, 65520); (0, 15)], 3) /\
  bits_compile [4; 3] = None /\
  bits_unpack_all (bits_pack_all 16777215 [(20, 15728640); (16, 983040); (4, 65520); (0, 15)] [-1; 5; 4097; 3])
                  [(20, 15728640); (16, 983040); (4, 65520); (0, 15)] = [15; 5; 1; 3].
Proof. vm_compute. repeat split; reflexivity. Qed.

Print Assumptions C07_compile.
Print Assumptions C07_compile_accept.
Print Assumptions C07_compile_reject.
Print Assumptions C07_unpack.
Print Assumptions C07_pack.
Print Assumptions C07_pack_other_slice_untouched.
Print Assumptions C07_pack_stale_irrelevant.
Print Assumptions C07_unpack_pack.
