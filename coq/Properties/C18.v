(* C18 -- The regexp pre-filter never rejects a matching packet.
   Model: Kernel/Regex.v (the regular expressions as_regular_expression builds, and their language) and
   Model/Pattern.v (every field's pack_regexp, as repaired by the fixes D5, D6, D14).
   FULL STATEMENT: for all flat declarations over Int, Bits and Data and all patterns.  PROVED (C18_sound): exactly
   that -- every sizing mode, every subset of fields left as Any, bit runs included (the glue from a run's shared
   integer to one character class per byte: Proofs/RegexBits.v, on top of C18_byte_class_sound), for class tables
   whose bit runs are well formed (`class_bits_ok`, which the metaclass model guarantees: C01_describe_bits_ok) and
   patterns that only carry declared attributes (`ps_visible`: a pattern packet has no other; the statement without
   it is refuted by C18_needs_visible).  C18_sound_partial is the earlier theorem without bit runs. *)
From Coq Require Import ZArith List Bool.
From Bisturi Require Import Base.Bytes Kernel.IntCodec Kernel.DataK Kernel.Regex Model.Value Model.Decl Model.Unpack Model.Pattern
                            Model.WfBits Proofs.RoundTrip Proofs.RegexProofs Proofs.RegexBits.
Import ListNotations. Open Scope Z_scope.

(* if raw parses to a packet that is the pattern wherever the pattern is fixed, the derived regular expression
   matches a prefix of raw: the pre-filter cannot drop it *)
Theorem C18_sound : forall fuel host ct c k raw s e t ps rs,
  ct_get ct c = Some k -> forallb flat_field (cc_fields k) = true -> class_bits_ok k = true ->
  nodupb (fidxs (cc_fields k)) = true ->
  NoDup (map fst ps) -> ps_visible ps = true -> wf_bytes raw ->
  unpack_pkt fuel host ct raw c 0 = POk (VPkt c s) e t ->
  pattern_is (cc_fields k) ps s ->
  regex_of host k ps = Some rs ->
  prefix_match rs raw.
Proof. exact regex_sound. Qed.
(* non-vacuity: Int(1), a run of 3+5+8 bits, Data sized by the 5-bit member; two patterns; the theorem applied *)
Example C18_sound_example :
  prefix_match [RLit [7]; RRange 160 191; RLit [90]; RStar] rb_ex_raw /\
  prefix_match [RAny 1; RSet [3; 35; 67; 99; 131; 163; 195; 227]; RAny 1; RLit [65; 66; 67]] rb_ex_raw.
Proof. exact regex_sound_bits_applied. Qed.
(* a pattern that fixes the hidden shared integer of a bit run (no pattern packet can) refutes the statement *)
Example C18_needs_visible :
  ct_get [(0, rb_cx_k)] 0 = Some rb_cx_k /\
  forallb flat_field (cc_fields rb_cx_k) = true /\ class_bits_ok rb_cx_k = true /\
  nodupb (fidxs (cc_fields rb_cx_k)) = true /\
  NoDup (map fst rb_cx_ps) /\ wf_bytes rb_cx_raw /\
  (exists t, unpack_pkt 1 true [(0, rb_cx_k)] rb_cx_raw 0 0 = POk (VPkt 0 rb_cx_slots) 3 t) /\
  pattern_is (cc_fields rb_cx_k) rb_cx_ps rb_cx_slots /\
  regex_of true rb_cx_k rb_cx_ps = Some [RAny 1; RAny 3] /\
  ~ prefix_match [RAny 1; RAny 3] rb_cx_raw /\
  ps_visible rb_cx_ps = false.
Proof. exact regex_sound_needs_visible. Qed.

Theorem C18_sound_partial : forall fuel host ct c k raw s e t ps rs,
  ct_get ct c = Some k -> forallb flat_field_nobits (cc_fields k) = true -> nodupb (fidxs (cc_fields k)) = true ->
  NoDup (map fst ps) -> wf_bytes raw ->
  unpack_pkt fuel host ct raw c 0 = POk (VPkt c s) e t ->
  pattern_is (cc_fields k) ps s ->
  regex_of host k ps = Some rs ->
  prefix_match rs raw.
Proof. exact regex_sound_nobits. Qed.
Theorem C18_byte_class_sound : forall l x rest, length l = 8%nat -> 0 <= x < 256 -> byte_matches l x = true ->
  matches (byte_class l) [x] rest.
Proof. exact byte_class_sound. Qed.
(* building never fails on a field left as Any (given a well-typed length field) *)
Theorem C18_total_any : forall host cf name l ps, pslot_get ps name = Some PAny -> len_field_int l ps ->
  exists rs, leaf_regex host cf name l ps = Some rs.
Proof. exact leaf_regex_total_any. Qed.

Print Assumptions C18_sound.
Print Assumptions C18_sound_partial.
Print Assumptions C18_byte_class_sound.
Print Assumptions C18_total_any.
