(* C18 -- The regexp pre-filter never rejects a matching packet.
   Model: Kernel/Regex.v (the regular expressions as_regular_expression builds, and their language) and
   Model/Pattern.v (every field's pack_regexp, as repaired by the fixes D5, D6, D14).
   FULL STATEMENT: for all flat declarations over Int, Bits and Data and all patterns.  PROVED (`_partial`):
   for all flat declarations over Int and Data (every sizing mode, every subset of fields left as Any); for bit
   runs the per-byte character class is proved sound (C18_byte_class_sound, exhaustively over all 3^8 fixed/free
   masks) but the glue from the run's integer to its bytes is not: bit runs are covered by the correspondence
   check (rendered pattern compared byte for byte) and the implementation oracle only. *)
From Coq Require Import ZArith List Bool.
From Bisturi Require Import Base.Bytes Kernel.IntCodec Kernel.DataK Kernel.Regex Model.Value Model.Decl Model.Unpack Model.Pattern
                            Proofs.RoundTrip Proofs.RegexProofs.
Import ListNotations. Open Scope Z_scope.

(* if raw parses to a packet that is the pattern wherever the pattern is fixed, the derived regular expression
   matches a prefix of raw: the pre-filter cannot drop it *)
Theorem C18_sound_partial : forall fuel host ct c k raw s e t ps rs,
  ct_get ct c = Some k -> forallb flat_field_nobits (cc_fields k) = true -> nodupb (fidxs (cc_fields k)) = true ->
  NoDup (map fst ps) -> wf_bytes raw ->
  unpack_pkt fuel host ct raw c 0 = POk (VPkt c s) e t ->
  pattern_is (cc_fields k) ps s ->
  regex_of host k ps = Some rs ->
  prefix_match rs raw.
Proof. exact regex_sound_nobits. Qed.
Theorem C18_byte_class_sound : forall l x rest, length l = 8%nat -> 0 <= x < 256 -> byte_matches l x = true ->
  matches (byte_class l) [x] rest.
Proof. exact byte_class_sound. Qed.
(* building never fails on a field left as Any (given a well-typed length field) *)
Theorem C18_total_any : forall host cf name l ps, pslot_get ps name = Some PAny -> len_field_int l ps ->
  exists rs, leaf_regex host cf name l ps = Some rs.
Proof. exact leaf_regex_total_any. Qed.

Print Assumptions C18_sound_partial.
Print Assumptions C18_byte_class_sound.
Print Assumptions C18_total_any.
