(* C02 -- Serialize-then-parse reproduces the packet.
   FULL STATEMENT: for every declaration of the supported language and every value assignment consistent with it,
   unpack(p.pack()) succeeds, consumes the whole string and yields field-for-field equal values.
   PROVED (`_partial`): exactly that for the sequential sublanguage for which `Model/Consistent.consistent` is defined --
   integers, sized byte strings (constant / field / local expression), marker-delimited byte strings, references to
   packets, counted sequences, optionals -- i.e. WITHOUT positioning, bit runs, regex / read-to-end delimiters, until-
   loops and run-time selected references; those are covered by the correspondence and the oracle of
   harness/props/C02.py on the implementation (and, for parse-then-serialize, by C01).  Finding D8 (a regex delimiter
   not kept in the value) lies outside: the property excludes nothing there, the code fails it (KNOWN-FINDING). *)
From Coq Require Import ZArith List Bool.
From Bisturi Require Import Base.Bytes Kernel.Frag Model.Value Model.Decl Model.Unpack Model.Pack Model.Canon Model.Consistent
                            Proofs.RoundTrip Proofs.PackUnpack.
Import ListNotations. Open Scope Z_scope.

(* a value that satisfies its declaration serializes (never fails) to well-formed bytes that parse back -- whatever
   follows them in the input -- to the same packet on every declared attribute, ending exactly at the end of those bytes *)
Theorem C02_pack_unpack_partial : forall fuel host dl ct c s rest,
  ct_distinct ct = true -> ct_plain ct = true -> consistent fuel ct c s = true -> wf_bytes rest ->
  exists out v', pack_top fuel host dl ct c s = PBytes out v' /\ wf_bytes out /\
    exists s' t, unpack_pkt fuel host ct (out ++ rest) c 0 = POk (VPkt c s') (blen out) t /\
                 visible ct (VPkt c s') = visible ct (VPkt c s).
Proof. exact pack_unpack_sequential. Qed.

(* non-vacuity: a class table with every construct of the sublanguage and a nested class, a consistent value, its
   17-byte encoding and the parse back *)
Example C02_example_hypotheses : ct_distinct pu_ct3 = true /\ ct_plain pu_ct3 = true /\ consistent 3 pu_ct3 0 pu_s3 = true.
Proof. exact pu_ex_hyps. Qed.

Print Assumptions C02_pack_unpack_partial.
