(* placeholder until Proofs/PackUnpack.v lands *)
From Bisturi Require Import Model.Consistent.
Theorem C02_stub : elem_static (Bisturi.Model.Decl.ERefPkt BinNums.Z0 nil) = true. Proof. reflexivity. Qed.
Print Assumptions C02_stub.
