(* C02 -- Serialize-then-parse reproduces the packet.
   FULL STATEMENT: for every declaration of the supported language and every value assignment consistent with it,
   unpack(p.pack()) succeeds, consumes the whole string and yields field-for-field equal values.
   PROVED: C02_pack_unpack -- exactly that for the language for which `Model/ConsistentX.consistentx` is defined:
   integers, sized byte strings (constant / field / local expression), marker-delimited byte strings, references to
   packets and to fields / packets selected at run time, counted sequences and until-loops with per-element alignment,
   optionals, runs of bit fields, the empty marker, forward positioning (constant alignment with any reference, non-negative
   constant shift).  The parse ends at or after the last byte (a trailing move may leave the cursor beyond it) and exactly
   at it when there is no positioning (and no aligned repeated packet that writes nothing: `ct_seqtight`).
   Still outside (`consistentx` is false on them): absolute and computed positions (whether two fields collide depends on
   the layout), regex and read-to-end delimiters; those are covered by the correspondence and the oracle of
   harness/props/C02.py on the implementation (and, for parse-then-serialize, by C01).
   C02_pack_unpack_partial is the earlier theorem for the sequential sublanguage.
   Finding D8 (a regex delimiter not kept in the value) lies outside: the property excludes nothing there, the code
   fails it (KNOWN-FINDING). *)
From Coq Require Import ZArith List Bool.
From Bisturi Require Import Base.Bytes Kernel.Frag Model.Value Model.Decl Model.Unpack Model.Pack Model.Canon Model.WfBits Model.Consistent
                            Model.ConsistentX Proofs.RoundTrip Proofs.PackUnpack Proofs.PackUnpackX.
Import ListNotations. Open Scope Z_scope.

(* a value that satisfies its declaration (and holds nothing under the name of an Em field or a positioning pseudo-field:
   `vclean`) serializes -- never fails -- to well-formed bytes that parse back, whatever follows them in the input, to the
   same packet on every declared attribute *)
Theorem C02_pack_unpack : forall fuel host dl ct c s rest,
  ct_distinct ct = true -> ct_bits_ok ct = true -> consistentx fuel ct c s = true -> vclean ct (VPkt c s) = true ->
  wf_bytes rest ->
  exists out v', pack_top fuel host dl ct c s = PBytes out v' /\ wf_bytes out /\
    exists s' e t, unpack_pkt fuel host ct (out ++ rest) c 0 = POk (VPkt c s') e t /\ blen out <= e /\
                   (ct_nomoves ct = true -> ct_seqtight ct = true -> e = blen out) /\
                   visible ct (VPkt c s') = visible ct (VPkt c s).
Proof. exact pack_unpack_x. Qed.

(* non-vacuity: bit run, aligned field, until-loop of aligned nested packets, Em, shift, run-time selected reference,
   aligned counted bytes -- hypotheses hold, 22 bytes, parse back *)
Example C02_example_x :
  ct_distinct px_ct = true /\ ct_bits_ok px_ct = true /\ consistentx 3 px_ct 0 px_s = true /\
  vclean px_ct (VPkt 0 px_s) = true /\ ct_nomoves px_ct = false.
Proof. exact px_ex_hyps. Qed.
(* the two side conditions are needed *)
Example C02_needs_seqtight :
  ct_nomoves px_cx1_ct = true /\ ct_seqtight px_cx1_ct = false /\ vclean px_cx1_ct (VPkt 0 px_cx1_s) = true /\ ~ S11_as_stated.
Proof. exact nomoves_needs_seqtight. Qed.
Example C02_needs_vclean :
  vclean px_cx2_ct (VPkt 0 px_cx2_s) = false /\ vclean px_cx2_ct (VPkt 0 px_cx2_s') = false /\ ~ S11_as_stated.
Proof. exact visible_needs_vclean. Qed.

(* a value that satisfies its declaration serializes (never fails) to well-formed bytes that parse back -- whatever
   follows them in the input -- to the same packet on every declared attribute, ending exactly at the end of those bytes *)
Theorem C02_pack_unpack_partial : forall fuel host dl ct c s rest,
  ct_distinct ct = true -> ct_plain ct = true -> consistent fuel ct c s = true -> wf_bytes rest ->
  exists out v', pack_top fuel host dl ct c s = PBytes out v' /\ wf_bytes out /\
    exists s' t, unpack_pkt fuel host ct (out ++ rest) c 0 = POk (VPkt c s') (blen out) t /\
                 visible ct (VPkt c s') = visible ct (VPkt c s).
Proof. exact pack_unpack_sequential. Qed.

(* non-vacuity: a class table with every construct of the sublanguage and a nested class, a consistent value, its
   17-byte encoding and the parse back *)
Example C02_example_hypotheses : ct_distinct pu_ct3 = true /\ ct_plain pu_ct3 = true /\ consistent 3 pu_ct3 0 pu_s3 = true.
Proof. exact pu_ex_hyps. Qed.

Print Assumptions C02_pack_unpack.
Print Assumptions C02_pack_unpack_partial.
