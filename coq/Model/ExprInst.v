(* Model/ExprInst.v -- the generic deferred-expression machine of Kernel/ExprK.v instantiated with the concrete
   python values of Model/Value.v: operator codes, the operator tables g_op1 / g_op2 (with the two n-ary
   operators chooses and if_true_then_else), the translation to_g of the deferrable fragment of Value.expr into
   the generic trees, and the instantiated evaluator, compiler and stack machine.
   Definitions only. *)
From Coq Require Import ZArith List Bool.
From Bisturi Require Import Kernel.ExprK Model.Value.
Import ListNotations.
Local Open Scope nat_scope.

(* ---- operator codes ---- *)
Definition uop_code (o : uop) : nat :=
  match o with Neg => 0 | Inv => 1 | Truth => 2 | Len => 3 end.

Definition bop_code (o : bop) : nat :=
  match o with
  | Add => 0 | Sub => 1 | Mul => 2 | FloorDiv => 3 | Mod => 4
  | Le => 5 | Lt => 6 | Ge => 7 | Gt => 8 | Value.Eq => 9 | Ne => 10
  | BAnd => 11 | BOr => 12 | BXor => 13 | RShift => 14 | LShift => 15 | GetItem => 16
  end.

Definition CHOOSE : nat := 100.
Definition ITE : nat := 101.

Definition uop_decode (c : nat) : option uop :=
  match c with
  | 0 => Some Neg | 1 => Some Inv | 2 => Some Truth | 3 => Some Len
  | _ => None
  end.

Definition bop_decode (c : nat) : option bop :=
  match c with
  | 0 => Some Add | 1 => Some Sub | 2 => Some Mul | 3 => Some FloorDiv | 4 => Some Mod
  | 5 => Some Le | 6 => Some Lt | 7 => Some Ge | 8 => Some Gt | 9 => Some Value.Eq | 10 => Some Ne
  | 11 => Some BAnd | 12 => Some BOr | 13 => Some BXor | 14 => Some RShift | 15 => Some LShift
  | 16 => Some GetItem
  | _ => None
  end.

Definition to_sum {A} (r : res A) : A + exn :=
  match r with Ok a => inl a | Exn e => inr e end.

(* getattr(pkt, field_name) *)
Definition g_lookup (cx : ectx) (f : fname) : value + exn :=
  match slot_get (e_slots cx) f with Some v => inl v | None => inr AttributeError end.

Definition g_op1 (c : nat) (x : value) : value + exn :=
  match uop_decode c with
  | Some o => to_sum (apply_uop o x)
  | None => inr TypeError
  end.

(* op2 c l r = operator.c(l, r).  chooses(index, options) = options[index]: x is the selector, y the tuple or
   the dict of the options.  if_true_then_else(cond, (a, b)) = a if cond else b. *)
Definition g_op2 (c : nat) (x y : value) : value + exn :=
  if Nat.eqb c CHOOSE then to_sum (apply_bop GetItem y x)
  else if Nat.eqb c ITE then
    match y with
    | VTuple [a; b] => inl (if truth x then a else b)
    | _ => inr TypeError
    end
  else match bop_decode c with
       | Some o => to_sum (apply_bop o x y)
       | None => inr TypeError
       end.

(* ---- the generic trees over the concrete values ---- *)
Definition gexpr := ExprK.expr value fname.
Definition ginstr := ExprK.instr value fname.

Fixpoint to_g (e : Value.expr) : option gexpr :=
  match e with
  | ELit v => Some (Lit value fname v)
  | EField f => Some (Fld value fname f)
  | EUn o a =>
      match to_g a with Some x => Some (Un value fname (uop_code o) x) | None => None end
  | EBin o l r =>
      match to_g l, to_g r with
      | Some a, Some b => Some (Bin value fname (bop_code o) a b)
      | _, _ => None
      end
  | EChoose s opts =>
      match to_g s,
            (fix go (es : list Value.expr) : option (list gexpr) :=
               match es with
               | [] => Some []
               | a :: r => match to_g a, go r with Some x, Some xs => Some (x :: xs) | _, _ => None end
               end) opts
      with
      | Some gs, Some gl => Some (NaryL value fname CHOOSE gs gl)
      | _, _ => None
      end
  | EChooseD s keys opts =>
      match to_g s,
            (fix go (es : list Value.expr) : option (list gexpr) :=
               match es with
               | [] => Some []
               | a :: r => match to_g a, go r with Some x, Some xs => Some (x :: xs) | _, _ => None end
               end) opts
      with
      | Some gs, Some gl => Some (NaryD value fname CHOOSE gs keys gl)
      | _, _ => None
      end
  | EIte c a b =>
      match to_g c, to_g a, to_g b with
      | Some gc, Some ga, Some gb => Some (NaryL value fname ITE gc [ga; gb])
      | _, _, _ => None
      end
  | EAttr _ _ | EOffset | ERawLen => None
  end.

(* ---- the instantiated evaluator, compiler and stack machine ---- *)
Definition g_eval (cx : ectx) (g : gexpr) : value + exn :=
  ExprK.eval value exn ectx fname g_lookup g_op1 g_op2 VTuple VDict cx g.

Definition g_compile (g : gexpr) : list ginstr :=
  ExprK.compile value fname g.

Definition g_run (cx : ectx) (st : list value) (p : list ginstr) : list value + exn :=
  ExprK.run value exn ectx fname g_lookup g_op1 g_op2 VTuple VDict cx st p.
