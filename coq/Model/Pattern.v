(* Model/Pattern.v -- Packet.as_regular_expression for flat declarations over Int, Bits and Data (no positioning:
   the Move pseudo-field has no regexp): what every field's pack_regexp appends, with the pattern packet's fields
   either fixed to a value or left as Any.  As repaired by the fixes D5 (Any length field), D6 (grouped regex
   delimiter) and D14 (size expression when another field is Any).  Definitions only. *)
From Coq Require Import ZArith List Bool Lia.
From Bisturi Require Import Base.Bytes Kernel.IntCodec Kernel.BitsK Kernel.DataK Kernel.Regex Model.Value Model.Decl.
Import ListNotations.
Open Scope Z_scope.

(* a field of the pattern packet: a concrete value, or the Any placeholder *)
Inductive pval := PLit (v : value) | PAny.
Definition pslots := list (fname * pval).
Fixpoint pslot_get (s : pslots) (f : fname) : option pval :=
  match s with
  | [] => None
  | (g, v) :: r => if fname_eqb f g then Some v else pslot_get r f
  end.
(* the concrete part, for evaluating a size expression on the pattern packet *)
Fixpoint lit_slots (s : pslots) : slots :=
  match s with
  | [] => []
  | (g, PLit v) :: r => (g, v) :: lit_slots r
  | (_, PAny) :: r => lit_slots r
  end.
Definition other_any (s : pslots) (me : fname) : bool :=
  existsb (fun p => match snd p with PAny => negb (fname_eqb (fst p) me) | PLit _ => false end) s.

(* does a value equal the pattern value?  (Any equals everything) *)
Definition pmatch (p : pval) (v : value) : bool := match p with PAny => true | PLit x => value_eqb x v end.

(* one leaf; None = building the regexp raises *)
Definition leaf_regex (host : bool) (cf : lconf) (name : fname) (l : leaf) (ps : pslots) : option (list rx) :=
  match pslot_get ps name with
  | None => None
  | Some (PLit v) =>
      (* literal: what pack() emits, escaped *)
      match l, v with
      | LInt n signed fe _, _ =>
          match as_int v with
          | Some z => match encode n signed (is_bigendian (resolve_endianness fe (lc_endianness cf)) host) z with
                      | Some b => Some [RLit b]
                      | None => None
                      end
          | None => None
          end
      | LDataSized _ _ _, VBytes b | LDataEos _, VBytes b => Some [RLit b]
      | LDataMarker m incl _, VBytes b => Some [RLit (b ++ (if incl then [] else m))]
      | LDataRegex _ true _, VBytes b => Some [RLit b]
      | _, _ => None
      end
  | Some PAny =>
      match l with
      | LInt n _ _ _ => Some [RAny n]
      | LDataSized size is_const _ =>
          match size, is_const with
          | ELit (VInt n), true => Some [RAny n]
          | EField g, _ =>
              (* given as the length FIELD: its value in the pattern, or unknown when it is Any (D5) *)
              match pslot_get ps g with
              | Some (PLit v) => match as_int v with Some z => Some [RAny z] | None => None end
              | _ => Some [RStar]
              end
          | _, _ =>
              (* an expression / callable: trusted only when no other field is Any (D14) *)
              if other_any ps name then Some [RStar]
              else match eval_int {| e_slots := lit_slots ps; e_offset := None; e_rawlen := None |} size with
                   | Ok z => Some [RAny z]
                   | Exn _ => Some [RStar]
                   end
          end
      | LDataMarker m _ _ => Some [RStar; RLit m]
      | LDataRegex r _ _ => Some [RStar; RDelim r]
      | LDataEos _ => Some [RStar; REnd]
      end
  end.

(* ---- a run of bit fields: one character class per byte ---- *)
(* the bits of the run, most significant first: Some b = fixed, None = don't care *)
Fixpoint bits_of (w : nat) (v : Z) : list (option bool) :=
  match w with
  | O => []
  | S k => Some (Z.testbit v (Z.of_nat k)) :: bits_of k v
  end.
Definition member_bits (w : Z) (p : pval) : option (list (option bool)) :=
  match p with
  | PAny => Some (repeat None (Z.to_nat w))
  | PLit v => match as_int v with
              | Some z => if (0 <=? z) && (z <? 2 ^ w) then Some (bits_of (Z.to_nat w) z) else None
              | None => None
              end
  end.
Fixpoint chunks8 (l : list (option bool)) (fuel : nat) : list (list (option bool)) :=
  match fuel with
  | O => []
  | S k => match l with [] => [] | _ => firstn 8 l :: chunks8 (skipn 8 l) k end
  end.
Definition bit_val (l : list (option bool)) (dflt : bool) : Z :=
  fold_left (fun acc b => 2 * acc + (if match b with Some x => x | None => dflt end then 1 else 0)) l 0.
Definition all_none (l : list (option bool)) : bool := forallb (fun b => match b with None => true | Some _ => false end) l.
Definition all_some (l : list (option bool)) : bool := forallb (fun b => match b with Some _ => true | None => false end) l.
(* index of the first don't-care bit *)
Fixpoint first_none (l : list (option bool)) : nat :=
  match l with [] => O | None :: _ => O | Some _ :: r => S (first_none r) end.
Definition byte_matches (l : list (option bool)) (x : Z) : bool :=
  forallb (fun p => match fst p with Some b => Bool.eqb b (Z.testbit x (Z.of_nat (snd p))) | None => true end)
          (combine l (map (fun k => (7 - k)%nat) (seq 0 8))).
Definition byte_class (l : list (option bool)) : rx :=
  if all_none l then RAny 1
  else if all_some l then RLit [bit_val l false]
  else if all_none (skipn (first_none l) l) then RRange (bit_val l false) (bit_val l true)
  else RSet (filter (byte_matches l) (map Z.of_nat (seq 0 256))).

(* the fields of a flat class, in order; bit runs handled at their last member (as Bits.pack_regexp does) *)
Fixpoint fields_regex (host : bool) (cf : lconf) (fs : list cfield) (ps : pslots) (run : list (option bool)) : option (list rx) :=
  match fs with
  | [] => Some []
  | CElem i (ELeafE l) :: r =>
      match leaf_regex host cf (FN i) l ps, fields_regex host cf r ps [] with
      | Some a, Some b => Some (a ++ b)
      | _, _ => None
      end
  | CBits i _ last _ shift mask _ _ :: r =>
      (* the member's width is recovered from its mask: mask = (2^w - 1) << shift *)
      let w := Z.log2 (Z.shiftr mask shift + 1) in
      match pslot_get ps (FN i) with
      | None => None
      | Some p =>
          match member_bits w p with
          | None => None
          | Some bs =>
              let run' := run ++ bs in
              if last then
                match fields_regex host cf r ps [] with
                | Some b => Some (map byte_class (chunks8 run' (length run')) ++ b)
                | None => None
                end
              else fields_regex host cf r ps run'
          end
      end
  | _ => None          (* not a flat Int / Bits / Data declaration *)
  end.

Definition regex_of (host : bool) (k : cclass) (ps : pslots) : option (list rx) :=
  fields_regex host (cc_conf k) (cc_fields k) ps [].

(* the parsed packet equals the pattern: every field of the pattern matches the parsed value *)
Definition pattern_eq (fs : list cfield) (ps : pslots) (s : slots) : bool :=
  forallb (fun f => match f with
                    | CElem i _ | CBits i _ _ _ _ _ _ _ =>
                        match pslot_get ps (FN i), slot_get s (FN i) with
                        | Some p, Some v => pmatch p v
                        | _, _ => false
                        end
                    | _ => false
                    end) fs.
