(* Model/Heap.v -- packets as OBJECTS (C13, the aliasing half): the values of Model/Value.v have no identity, so "two
   packets never share a mutable sub-object unless the user assigned it to both" cannot be said about them.  Here the
   mutable things -- packet instances and lists -- live in a heap of cells with addresses; integers, byte strings, None are
   immutable and stay inline.  The operations a user performs on live packets are given their aliasing behaviour:

     construct   Cls(k=v, ..): Packet.__init__ asks every field for a COPY of its default (Field.init deep-copies, Ref.init
                 clones its prototype) -- the tree Model/Init.complete builds is allocated in fresh cells;
     parse       unpack builds new packet instances and new lists -- the tree Model/Unpack returns is allocated fresh
                 (declarations whose selectors hand out packet INSTANCES are excluded: finding D9);
     assign      setattr / list item assignment stores the object it is given, no copy: a literal is allocated fresh, an
                 object the user took from a live packet is stored as it is (and recorded in the ghost set `shared`);
     append      list.append: the same;
     serialize   pack() reads the object graph; it writes only scratch attributes of the packets it serializes (they are
                 not modelled as cells: Properties/C13.C13_pack_preserves_fields / C13_pack_twice speak about them).

   The correspondence check (harness/props/C13.py) runs histories of these operations on bisturi and on this model and
   compares, after every operation, which (packet, path) pairs are the SAME object (python `is`): `ident_seq`.
   Definitions only. *)
From Coq Require Import ZArith List Bool Lia.
From Bisturi Require Import Base.Bytes Model.Value Model.Decl Model.Unpack Model.Pack Model.Init Model.Codegen Model.Canon.
Import ListNotations.
Open Scope Z_scope.

Definition addr := Z.
Inductive hval := HImm (v : value) | HRef (a : addr).
Inductive hobj := HList (l : list hval) | HPkt (c : cid) (s : list (fname * hval)).
Record heap := { cells : list (addr * hobj); next : addr }.
Definition h_empty : heap := {| cells := []; next := 0 |}.

Fixpoint cells_get (cs : list (addr * hobj)) (a : addr) : option hobj :=
  match cs with
  | [] => None
  | (b, o) :: r => if a =? b then Some o else cells_get r a
  end.
Definition h_get (h : heap) (a : addr) : option hobj := cells_get (cells h) a.
(* a new cell at the next address *)
Definition h_alloc (h : heap) (o : hobj) : addr * heap :=
  (next h, {| cells := (next h, o) :: cells h; next := next h + 1 |}).
(* update in place (the newer binding shadows the older one) *)
Definition h_put (h : heap) (a : addr) (o : hobj) : heap := {| cells := (a, o) :: cells h; next := next h |}.

(* ---- a tree value becomes a graph of fresh cells ---- *)
Fixpoint alloc_tree (v : value) (h : heap) {struct v} : hval * heap :=
  match v with
  | VList l =>
      let '(xs, h1) :=
        (fix go (l : list value) (h : heap) {struct l} : list hval * heap :=
           match l with
           | [] => ([], h)
           | a :: r => let '(x, h1) := alloc_tree a h in let '(xs, h2) := go r h1 in (x :: xs, h2)
           end) l h in
      let '(a, h2) := h_alloc h1 (HList xs) in (HRef a, h2)
  | VPkt c s =>
      let '(xs, h1) :=
        (fix go (s : list (fname * value)) (h : heap) {struct s} : list (fname * hval) * heap :=
           match s with
           | [] => ([], h)
           | (f, a) :: r => let '(x, h1) := alloc_tree a h in let '(xs, h2) := go r h1 in ((f, x) :: xs, h2)
           end) s h in
      let '(a, h2) := h_alloc h1 (HPkt c xs) in (HRef a, h2)
  | _ => (HImm v, h)
  end.

(* ---- and back: the tree an object graph denotes (None: dangling address or a cycle deeper than the fuel) ---- *)
Fixpoint read_tree (fuel : nat) (h : heap) (x : hval) {struct fuel} : option value :=
  match x with
  | HImm v => Some v
  | HRef a =>
      match fuel with
      | O => None
      | S k =>
          match h_get h a with
          | Some (HList l) => match map_opt (read_tree k h) l with Some vs => Some (VList vs) | None => None end
          | Some (HPkt c s) =>
              match map_opt (fun p => match read_tree k h (snd p) with Some v => Some (fst p, v) | None => None end) s with
              | Some vs => Some (VPkt c vs)
              | None => None
              end
          | None => None
          end
      end
  end.

(* ---- reachability, as a relation (for the theorems) ---- *)
Inductive child (h : heap) : addr -> hval -> Prop :=
| ChList : forall a l x, h_get h a = Some (HList l) -> In x l -> child h a x
| ChPkt : forall a c s f x, h_get h a = Some (HPkt c s) -> In (f, x) s -> child h a x.
Inductive reach (h : heap) : hval -> addr -> Prop :=
| RHere : forall a, reach h (HRef a) a
| RStep : forall a x b, child h a x -> reach h x b -> reach h (HRef a) b.

(* ---- the world: live packets by name, the heap, and the ghost set of objects the user put in two places ---- *)
Record world := { hp : heap; roots : list (Z * addr); shared : list addr }.
Definition w_empty : world := {| hp := h_empty; roots := []; shared := [] |}.
Fixpoint root_get (rs : list (Z * addr)) (r : Z) : option addr :=
  match rs with
  | [] => None
  | (q, a) :: t => if r =? q then Some a else root_get t r
  end.
Definition root_set (rs : list (Z * addr)) (r : Z) (a : addr) : list (Z * addr) :=
  (r, a) :: filter (fun p => negb (fst p =? r)) rs.

(* a path from a live packet into its object graph *)
Inductive step := SField (f : fname) | SIndex (i : Z).
Fixpoint hslot_get (s : list (fname * hval)) (f : fname) : option hval :=
  match s with
  | [] => None
  | (g, x) :: r => if fname_eqb f g then Some x else hslot_get r f
  end.
Fixpoint hslot_set (s : list (fname * hval)) (f : fname) (x : hval) : list (fname * hval) :=
  match s with
  | [] => [(f, x)]
  | (g, y) :: r => if fname_eqb f g then (g, x) :: r else (g, y) :: hslot_set r f x
  end.
Fixpoint list_set (l : list hval) (i : nat) (x : hval) : option (list hval) :=
  match l, i with
  | [], _ => None
  | _ :: r, O => Some (x :: r)
  | a :: r, S k => match list_set r k x with Some r' => Some (a :: r') | None => None end
  end.
(* what a step reads *)
Definition step_get (h : heap) (x : hval) (st : step) : option hval :=
  match x with
  | HImm _ => None
  | HRef a =>
      match h_get h a, st with
      | Some (HPkt _ s), SField f => hslot_get s f
      | Some (HList l), SIndex i => if i <? 0 then None else nth_error l (Z.to_nat i)
      | _, _ => None
      end
  end.
Fixpoint path_get (h : heap) (x : hval) (p : list step) : option hval :=
  match p with
  | [] => Some x
  | st :: r => match step_get h x st with Some y => path_get h y r | None => None end
  end.

(* what the user hands over: a literal built on the spot, or an object taken from a live packet *)
Inductive src := SrcLit (v : value) | SrcObj (r : Z) (p : list step).

Inductive wop :=
| WNew (r : Z) (v : value)                         (* r = Cls(k=v, ..): v is the constructor call (VNew) *)
| WParse (r : Z) (c : cid) (raw : bytes) (off : Z) (* r = Cls.unpack(raw, off) *)
| WReparse (r r0 : Z)                              (* r = type(r0).unpack(r0.pack()) *)
| WSet (r : Z) (p : list step) (last : step) (x : src)    (* <r.p>.last = x   (attribute or list item) *)
| WAppend (r : Z) (p : list step) (x : src)        (* <r.p>.append(x) *)
| WPack (r : Z).

Definition resolve_src (ct : ctab) (w : world) (x : src) : option (hval * heap * list addr) :=
  match x with
  | SrcLit v =>
      (* constructor calls inside the literal are carried out first *)
      match complete FUEL ct v with
      | Some v' => let '(y, h1) := alloc_tree v' (hp w) in Some (y, h1, shared w)
      | None => None
      end
  | SrcObj r p =>
      match root_get (roots w) r with
      | Some a =>
          match path_get (hp w) (HRef a) p with
          | Some (HRef b) => Some (HRef b, hp w, b :: shared w)
          | Some (HImm v) => Some (HImm v, hp w, shared w)
          | None => None
          end
      | None => None
      end
  end.

Definition RFUEL : nat := 30.

(* one operation; None = it raises (the world is then unchanged) *)
Definition w_step (host : bool) (ct : ctab) (w : world) (o : wop) : option world :=
  match o with
  | WNew r v =>
      match complete FUEL ct v with
      | Some (VPkt c s) =>
          match alloc_tree (VPkt c s) (hp w) with
          | (HRef a, h1) => Some {| hp := h1; roots := root_set (roots w) r a; shared := shared w |}
          | _ => None
          end
      | _ => None
      end
  | WParse r c raw off =>
      match unpack_any FUEL host ct raw c off with
      | POk v _ _ =>
          match alloc_tree v (hp w) with
          | (HRef a, h1) => Some {| hp := h1; roots := root_set (roots w) r a; shared := shared w |}
          | _ => None
          end
      | _ => None
      end
  | WReparse r r0 =>
      match root_get (roots w) r0 with
      | Some a0 =>
          match read_tree RFUEL (hp w) (HRef a0) with
          | Some (VPkt c s) =>
              match pack_any_top FUEL host no_delims ct c s with
              | PBytes b _ =>
                  match unpack_any FUEL host ct b c 0 with
                  | POk v _ _ =>
                      match alloc_tree v (hp w) with
                      | (HRef a, h1) => Some {| hp := h1; roots := root_set (roots w) r a; shared := shared w |}
                      | _ => None
                      end
                  | _ => None
                  end
              | _ => None
              end
          | _ => None
          end
      | None => None
      end
  | WSet r p last x =>
      match root_get (roots w) r with
      | None => None
      | Some a =>
          match path_get (hp w) (HRef a) p with
          | Some (HRef b) =>
              match resolve_src ct w x with
              | None => None
              | Some (y, h1, sh) =>
                  match h_get h1 b, last with
                  | Some (HPkt c s), SField f => Some {| hp := h_put h1 b (HPkt c (hslot_set s f y)); roots := roots w; shared := sh |}
                  | Some (HList l), SIndex i =>
                      if i <? 0 then None
                      else match list_set l (Z.to_nat i) y with
                           | Some l' => Some {| hp := h_put h1 b (HList l'); roots := roots w; shared := sh |}
                           | None => None
                           end
                  | _, _ => None
                  end
              end
          | _ => None
          end
      end
  | WAppend r p x =>
      match root_get (roots w) r with
      | None => None
      | Some a =>
          match path_get (hp w) (HRef a) p with
          | Some (HRef b) =>
              match resolve_src ct w x with
              | None => None
              | Some (y, h1, sh) =>
                  match h_get h1 b with
                  | Some (HList l) => Some {| hp := h_put h1 b (HList (l ++ [y])); roots := roots w; shared := sh |}
                  | _ => None
                  end
              end
          | _ => None
          end
      end
  | WPack r =>
      match root_get (roots w) r with
      | Some a =>
          match read_tree RFUEL (hp w) (HRef a) with
          | Some (VPkt c s) => match pack_any_top FUEL host no_delims ct c s with PBytes _ _ => Some w | _ => None end
          | _ => None
          end
      | None => None
      end
  end.

Definition w_run1 (host : bool) (ct : ctab) (w : world) (o : wop) : world :=
  match w_step host ct w o with Some w' => w' | None => w end.

(* ---- observation for the correspondence check: the addresses met by a depth-first walk over the DECLARED attributes of a
   live packet (class field order; lists by index): -1 an immutable value, -2 an attribute that is not set, an address for
   a list / packet; an object met again is named but not entered again.  Two walks give the same sequence up to a renaming
   of addresses iff the same (packet, path) pairs are the same object. ---- *)
Definition value_fields (k : cclass) : list fname :=
  flat_map (fun f => match f with CMove _ _ _ _ => [] | _ => [cf_name f] end) (cc_fields k).
Fixpoint ident_seq (fuel : nat) (ct : ctab) (h : heap) (x : hval) (seen : list addr) {struct fuel} : list Z * list addr :=
  match x with
  | HImm _ => ([-1], seen)
  | HRef a =>
      if existsb (Z.eqb a) seen then ([a], seen)
      else match fuel with
           | O => ([a], seen)
           | S k =>
               let seen1 := a :: seen in
               match h_get h a with
               | Some (HList l) =>
                   fold_left (fun acc y => let '(s1, sn1) := ident_seq k ct h y (snd acc) in (fst acc ++ s1, sn1)) l ([a], seen1)
               | Some (HPkt c sl) =>
                   match ct_get ct c with
                   | Some kc =>
                       fold_left (fun acc f =>
                                    match hslot_get sl f with
                                    | Some y => let '(s1, sn1) := ident_seq k ct h y (snd acc) in (fst acc ++ s1, sn1)
                                    | None => (fst acc ++ [-2], snd acc)
                                    end) (value_fields kc) ([a], seen1)
                   | None => ([a], seen1)
                   end
               | None => ([a], seen1)
               end
           end
  end.
(* all live packets, in the order given *)
Definition observe (ct : ctab) (w : world) (names : list Z) : list Z :=
  fst (fold_left (fun acc r =>
                    match root_get (roots w) r with
                    | Some a => let '(s1, sn1) := ident_seq RFUEL ct (hp w) (HRef a) (snd acc) in (fst acc ++ (-3) :: s1, sn1)
                    | None => (fst acc ++ [-4], snd acc)
                    end) names ([], [])).

(* a whole history: the observation after every operation, each preceded by 1 (done) / 0 (raised) *)
Fixpoint w_history (host : bool) (ct : ctab) (w : world) (names : list Z) (ops : list wop) : list (list Z) :=
  match ops with
  | [] => []
  | o :: r =>
      let w' := w_run1 host ct w o in
      ((match w_step host ct w o with Some _ => 1 | None => 0 end) :: observe ct w' names) :: w_history host ct w' names r
  end.

(* selectors that hand out packet instances share them between parses (finding D9): excluded *)
Fixpoint expr_no_pkt (e : expr) {struct e} : bool :=
  match e with
  | ELit v => match v with VPkt _ _ | VNew _ _ => false | _ => true end
  | EField _ | EOffset | ERawLen => true
  | EUn _ a => expr_no_pkt a
  | EBin _ l r => expr_no_pkt l && expr_no_pkt r
  | EChoose s opts => expr_no_pkt s && (fix go (l : list expr) : bool := match l with [] => true | a :: r => expr_no_pkt a && go r end) opts
  | EChooseD s _ opts => expr_no_pkt s && (fix go (l : list expr) : bool := match l with [] => true | a :: r => expr_no_pkt a && go r end) opts
  | EIte c a b => expr_no_pkt c && expr_no_pkt a && expr_no_pkt b
  | EAttr a _ => expr_no_pkt a
  end.
Definition elem_fresh (e : elem) : bool := match e with ERefSel sel _ => expr_no_pkt sel | _ => true end.
Definition cfield_fresh (f : cfield) : bool :=
  match f with CElem _ e | CSeq _ e _ _ _ _ _ | COpt _ e _ _ => elem_fresh e | _ => true end.
Definition ct_fresh (ct : ctab) : bool := forallb (fun ck => forallb cfield_fresh (cc_fields (snd ck))) ct.
