(* Model/Wf2.v -- further side conditions (kept apart from Wf.v): non-negative constant sizes, and the
   exclusion of finding D11 (a Data(n) holding a value whose length is not n).  Definitions only. *)
From Coq Require Import ZArith List Bool Lia.
From Bisturi Require Import Base.Bytes Kernel.IntCodec Kernel.Align Kernel.BitsK Kernel.DataK
                            Model.Value Model.Decl.
Import ListNotations.
Open Scope Z_scope.

(* Data(n) with a negative constant n cannot even be defined when code generation is on (struct.calcsize) *)
Definition cfield_sizes_ok (f : cfield) : bool :=
  match f with
  | CElem _ (ELeafE (LDataSized (ELit (VInt n)) true _)) => 0 <=? n
  | _ => true
  end.
Definition ct_sizes_ok (ct : ctab) : bool := forallb (fun ck => forallb cfield_sizes_ok (cc_fields (snd ck))) ct.

(* every top-level Data(n) field of every packet inside v holds bytes of length exactly n *)
Fixpoint lens_ok (fuel : nat) (ct : ctab) (v : value) {struct fuel} : bool :=
  match fuel with
  | O => false
  | S f =>
      match v with
      | VPkt c s =>
          match ct_get ct c with
          | None => false
          | Some k =>
              forallb (fun cf => match cf with
                                 | CElem i (ELeafE (LDataSized (ELit (VInt n)) true _)) =>
                                     match slot_get s (FN i) with Some (VBytes b) => blen b =? n | _ => true end
                                 | _ => true
                                 end) (cc_fields k)
              && forallb (fun fv => lens_ok f ct (snd fv)) s
          end
      | VList l => forallb (lens_ok f ct) l
      | _ => true
      end
  end.
