(* Model/Wf.v -- the side conditions the property theorems are stated under, as boolean predicates over
   declarations (so that a concrete declaration can be shown to satisfy them by computation).
   Definitions only. *)
From Coq Require Import ZArith List Bool Lia.
From Bisturi Require Import Base.Bytes Kernel.IntCodec Kernel.Align Kernel.BitsK Kernel.DataK
                            Model.Value Model.Decl.
Import ListNotations.
Open Scope Z_scope.

(* ---- "local": the expression does not look at the offset argument nor at the raw buffer ---- *)
Fixpoint expr_local (e : expr) {struct e} : bool :=
  match e with
  | ELit v => value_local v
  | EField _ => true
  | EUn _ a => expr_local a
  | EBin _ l r => expr_local l && expr_local r
  | EChoose s opts => expr_local s && (fix go (l : list expr) : bool := match l with [] => true | a :: r => expr_local a && go r end) opts
  | EChooseD s keys opts =>
      expr_local s && (fix go (l : list expr) : bool := match l with [] => true | a :: r => expr_local a && go r end) opts
  | EIte c a b => expr_local c && expr_local a && expr_local b
  | EAttr a _ => expr_local a
  | EOffset | ERawLen => false
  end
with value_local (v : value) {struct v} : bool :=
  match v with
  | VLeaf l => leaf_local l
  | VList l | VTuple l => (fix go (l : list value) : bool := match l with [] => true | a :: r => value_local a && go r end) l
  | VDict _ vals => (fix go (l : list value) : bool := match l with [] => true | a :: r => value_local a && go r end) vals
  | VPkt _ sl | VNew _ sl =>
      (fix go (l : list (fname * value)) : bool := match l with [] => true | (_, a) :: r => value_local a && go r end) sl
  | _ => true
  end
with leaf_local (l : leaf) {struct l} : bool :=
  match l with
  | LDataSized size _ _ => expr_local size
  | _ => true
  end.

Definition oexpr_local (o : option expr) : bool := match o with Some e => expr_local e | None => true end.
Definition elem_local (e : elem) : bool :=
  match e with
  | ELeafE l => leaf_local l
  | ERefPkt _ _ => true
  | ERefSel sel _ => expr_local sel
  end.
Definition marg_local (m : marg) : bool := match m with MFun e => expr_local e | _ => true end.
(* a move that can only go forwards from its reference point: a non-negative constant jump, a positive
   constant alignment *)
Definition move_forward (arg : marg) (al : bool) : bool :=
  match arg with
  | MConst z => if al then 0 <? z else 0 <=? z
  | _ => false
  end.

(* a compiled field that never refers to the start of the data: no 'begins' reference, no per-element
   alignment (which is absolute), only local expressions.  `fwd` additionally asks that positioning only
   moves forwards (a relative move to before the packet's own start reads what precedes it: finding D13). *)
Definition cfield_local_gen (fwd : bool) (f : cfield) : bool :=
  match f with
  | CMove _ arg rf al => marg_local arg && match rf with RBegins => false | _ => true end && (negb fwd || move_forward arg al)
  | CElem _ e => elem_local e
  | CBits _ _ _ _ _ _ _ _ => true
  | CSeq _ e count until when _ al => elem_local e && oexpr_local count && oexpr_local until && oexpr_local when && (al =? 1)
  | COpt _ e when _ => elem_local e && expr_local when
  | CEm _ => true
  end.
Definition cfield_local := cfield_local_gen true.
Definition cfield_local_weak := cfield_local_gen false.
Definition class_local (k : cclass) : bool := forallb cfield_local (cc_fields k).
Definition ct_local (ct : ctab) : bool := forallb (fun ck => class_local (snd ck)) ct.
Definition ct_local_weak (ct : ctab) : bool := forallb (fun ck => forallb cfield_local_weak (cc_fields (snd ck))) ct.

(* ---- basic well-formedness: positive per-element alignments ---- *)
Definition cfield_wf (f : cfield) : bool :=
  match f with
  | CSeq _ _ _ _ _ _ al => 0 <? al
  | _ => true
  end.
Definition class_wf (k : cclass) : bool := forallb cfield_wf (cc_fields k).
Definition ct_wf (ct : ctab) : bool := forallb (fun ck => class_wf (snd ck)) ct.

(* ---- leaves that discard information or read to the end ---- *)
Definition leaf_keeps_delimiter (l : leaf) : bool :=
  match l with LDataRegex _ incl _ => incl | _ => true end.
Definition leaf_closed (l : leaf) : bool :=          (* neither a regex nor read-to-end *)
  match l with LDataRegex _ _ _ | LDataEos _ => false | _ => true end.

(* ---- "closed": no regex-delimited and no read-to-end leaf anywhere (also not among the options of a
        selector), and only local expressions: what the suffix-independence theorem needs ---- *)
Fixpoint expr_closed (e : expr) {struct e} : bool :=
  match e with
  | ELit v => value_closed v
  | EField _ => true
  | EUn _ a => expr_closed a
  | EBin _ l r => expr_closed l && expr_closed r
  | EChoose s opts => expr_closed s && (fix go (l : list expr) : bool := match l with [] => true | a :: r => expr_closed a && go r end) opts
  | EChooseD s keys opts =>
      expr_closed s && (fix go (l : list expr) : bool := match l with [] => true | a :: r => expr_closed a && go r end) opts
  | EIte c a b => expr_closed c && expr_closed a && expr_closed b
  | EAttr a _ => expr_closed a
  | EOffset => true
  | ERawLen => false
  end
with value_closed (v : value) {struct v} : bool :=
  match v with
  | VLeaf l => leaf_closed_rec l
  | VList l | VTuple l => (fix go (l : list value) : bool := match l with [] => true | a :: r => value_closed a && go r end) l
  | VDict _ vals => (fix go (l : list value) : bool := match l with [] => true | a :: r => value_closed a && go r end) vals
  | VPkt _ sl | VNew _ sl =>
      (fix go (l : list (fname * value)) : bool := match l with [] => true | (_, a) :: r => value_closed a && go r end) sl
  | _ => true
  end
with leaf_closed_rec (l : leaf) {struct l} : bool :=
  match l with
  | LDataSized size _ _ => expr_closed size
  | LDataRegex _ _ _ | LDataEos _ => false
  | _ => true
  end.
Definition oexpr_closed (o : option expr) : bool := match o with Some e => expr_closed e | None => true end.
Definition elem_closed (e : elem) : bool :=
  match e with ELeafE l => leaf_closed_rec l | ERefPkt _ _ => true | ERefSel sel _ => expr_closed sel end.
Definition cfield_closed (f : cfield) : bool :=
  match f with
  | CMove _ arg _ _ => match arg with MFun e => expr_closed e | _ => true end
  | CElem _ e => elem_closed e
  | CBits _ _ _ _ _ _ _ _ => true
  | CSeq _ e count until when _ _ => elem_closed e && oexpr_closed count && oexpr_closed until && oexpr_closed when
  | COpt _ e when _ => elem_closed e && expr_closed when
  | CEm _ => true
  end.
Definition ct_closed (ct : ctab) : bool := forallb (fun ck => forallb cfield_closed (cc_fields (snd ck))) ct.
