(* Model/Wf.v -- the side conditions the property theorems are stated under, as boolean predicates over
   declarations (so that a concrete declaration can be shown to satisfy them by computation).
   Definitions only. *)
From Coq Require Import ZArith List Bool Lia.
From Bisturi Require Import Base.Bytes Kernel.IntCodec Kernel.Align Kernel.BitsK Kernel.DataK
                            Model.Value Model.Decl.
Import ListNotations.
Open Scope Z_scope.

(* ---- "local": the expression does not look at the offset argument nor at the raw buffer ---- *)
Fixpoint expr_local (e : expr) {struct e} : bool :=
  match e with
  | ELit v => value_local v
  | EField _ => true
  | EUn _ a => expr_local a
  | EBin _ l r => expr_local l && expr_local r
  | EChoose s opts => expr_local s && (fix go (l : list expr) : bool := match l with [] => true | a :: r => expr_local a && go r end) opts
  | EChooseD s keys opts =>
      expr_local s && (fix go (l : list expr) : bool := match l with [] => true | a :: r => expr_local a && go r end) opts
  | EIte c a b => expr_local c && expr_local a && expr_local b
  | EAttr a _ => expr_local a
  | EOffset | ERawLen => false
  end
with value_local (v : value) {struct v} : bool :=
  match v with
  | VLeaf l => leaf_local l
  | VList l | VTuple l => (fix go (l : list value) : bool := match l with [] => true | a :: r => value_local a && go r end) l
  | _ => true
  end
with leaf_local (l : leaf) {struct l} : bool :=
  match l with
  | LDataSized size _ _ => expr_local size
  | _ => true
  end.

Definition oexpr_local (o : option expr) : bool := match o with Some e => expr_local e | None => true end.
Definition elem_local (e : elem) : bool :=
  match e with
  | ELeafE l => leaf_local l
  | ERefPkt _ _ => true
  | ERefSel sel _ => expr_local sel
  end.
Definition marg_local (m : marg) : bool := match m with MFun e => expr_local e | _ => true end.

(* a compiled field that never refers to the start of the data: no 'begins' reference, no per-element
   alignment (which is absolute), only local expressions *)
Definition cfield_local (f : cfield) : bool :=
  match f with
  | CMove _ arg rf _ => marg_local arg && match rf with RBegins => false | _ => true end
  | CElem _ e => elem_local e
  | CBits _ _ _ _ _ _ _ _ => true
  | CSeq _ e count until when _ al => elem_local e && oexpr_local count && oexpr_local until && oexpr_local when && (al =? 1)
  | COpt _ e when _ => elem_local e && expr_local when
  | CEm _ => true
  end.
Definition class_local (k : cclass) : bool := forallb cfield_local (cc_fields k).
Definition ct_local (ct : ctab) : bool := forallb (fun ck => class_local (snd ck)) ct.

(* ---- basic well-formedness: positive per-element alignments ---- *)
Definition cfield_wf (f : cfield) : bool :=
  match f with
  | CSeq _ _ _ _ _ _ al => 0 <? al
  | _ => true
  end.
Definition class_wf (k : cclass) : bool := forallb cfield_wf (cc_fields k).
Definition ct_wf (ct : ctab) : bool := forallb (fun ck => class_wf (snd ck)) ct.

(* ---- leaves that discard information or read to the end ---- *)
Definition leaf_keeps_delimiter (l : leaf) : bool :=
  match l with LDataRegex _ incl _ => incl | _ => true end.
Definition leaf_closed (l : leaf) : bool :=          (* neither a regex nor read-to-end *)
  match l with LDataRegex _ _ _ | LDataEos _ => false | _ => true end.
