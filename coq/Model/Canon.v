(* Model/Canon.v -- what the correspondence check compares: canonical values (only what the public API shows:
   the attributes get_fields() lists, the Move pseudo-fields included: they hold no value), outcomes, and the top-level runners
   that the generated cases files call.  Definitions only. *)
From Coq Require Import ZArith List Bool Lia.
From Bisturi Require Import Base.Bytes Kernel.IntCodec Kernel.Align Kernel.BitsK Kernel.DataK Kernel.Frag
                            Model.Value Model.Decl Model.Unpack Model.Pack Model.Init Model.Codegen.
Import ListNotations.
Open Scope Z_scope.

Inductive cval := CInt (z : Z) | CBytes (b : bytes) | CNone | CList (l : list cval)
                | CPkt (c : cid) (fs : list (fname * option cval)) | COther.

Definition is_shift (f : fname) : bool := match f with FShift _ => true | _ => false end.
Fixpoint cslot_get (s : list (fname * cval)) (f : fname) : option cval :=
  match s with
  | [] => None
  | (g, v) :: r => if fname_eqb f g then Some v else cslot_get r f
  end.

Fixpoint canon (ct : ctab) (v : value) {struct v} : cval :=
  match v with
  | VInt x => CInt x
  | VBool b => CInt (if b then 1 else 0)
  | VBytes b => CBytes b
  | VNone => CNone
  | VList l => CList ((fix go (l : list value) : list cval := match l with [] => [] | a :: r => canon ct a :: go r end) l)
  | VPkt c s =>
      let cs := (fix go (s : list (fname * value)) : list (fname * cval) :=
                   match s with [] => [] | (g, x) :: r => (g, canon ct x) :: go r end) s in
      match ct_get ct c with
      | Some k => CPkt c (map (fun f => (f, cslot_get cs f)) (field_names k))
      | None => COther
      end
  | _ => COther
  end.

Definition bytes_eqb (a b : bytes) : bool := (blen a =? blen b) && forallb (fun p => fst p =? snd p) (combine a b).
Fixpoint cval_eqb (a b : cval) {struct a} : bool :=
  match a, b with
  | CInt x, CInt y => x =? y
  | CBytes x, CBytes y => bytes_eqb x y
  | CNone, CNone => true
  | CList x, CList y =>
      (fix go (x y : list cval) {struct x} : bool :=
         match x, y with [] , [] => true | a :: x', b :: y' => cval_eqb a b && go x' y' | _, _ => false end) x y
  | CPkt c x, CPkt d y =>
      (c =? d) &&
      (fix go (x y : list (fname * option cval)) {struct x} : bool :=
         match x, y with
         | [], [] => true
         | (f, a) :: x', (g, b) :: y' =>
             fname_eqb f g && match a, b with Some a', Some b' => cval_eqb a' b' | None, None => true | _, _ => false end && go x' y'
         | _, _ => false
         end) x y
  | _, _ => false
  end.

Definition stack_eqb (a b : stack) : bool :=
  (Z.of_nat (length a) =? Z.of_nat (length b)) &&
  forallb (fun p => let '((o1, f1, c1), (o2, f2, c2)) := p in (o1 =? o2) && fname_eqb f1 f2 && (c1 =? c2)) (combine a b).

(* what a call showed *)
Inductive outcome :=
| OVal (v : cval) (end_off : option Z)    (* unpack: the packet (and the end offset when observed) *)
| OBytes (b : bytes)                      (* pack *)
| OErr (unpacking : bool) (st : stack)    (* PacketError: phase flag and fields_stack *)
| ORoundTrip (v : cval) (end_off : Z) (p : outcome)
| OOther.                                 (* any other exception (never produced by the model) *)

Fixpoint outcome_eqb (a b : outcome) : bool :=
  match a, b with
  | OVal x e1, OVal y e2 =>
      cval_eqb x y && match e1, e2 with Some p, Some q => p =? q | _, _ => true end
  | OBytes x, OBytes y => bytes_eqb x y
  | OErr p s, OErr q t => Bool.eqb p q && stack_eqb s t
  | ORoundTrip x e1 p, ORoundTrip y e2 q => cval_eqb x y && (e1 =? e2) && outcome_eqb p q
  | _, _ => false
  end.

(* the classes that could be defined *)
Fixpoint mk_ctab (l : list (cid * pclass)) : ctab :=
  match l with
  | [] => []
  | (c, p) :: r => match describe p with Some k => (c, k) :: mk_ctab r | None => mk_ctab r end
  end.
Definition defined (l : list (cid * pclass)) : list (cid * bool) :=
  map (fun cp => (fst cp, match describe (snd cp) with Some _ => true | None => false end)) l.

Definition FUEL : nat := 1000.    (* nesting depth and until-loop bound of the correspondence runs: consumed by need *)
Definition no_delims : dstate := fun _ _ => [].
(* the delimiter each regex-delimited field object remembers after a parse: the last one logged *)
Fixpoint delims_of (t : trace) (d : dstate) : dstate :=
  match t with
  | [] => d
  | TDelim c f b :: r => delims_of r (fun c' f' => if (c' =? c) && fname_eqb f' f then b else d c' f')
  | _ :: r => delims_of r d
  end.

Definition run_unpack (host : bool) (ct : ctab) (c : cid) (raw : bytes) (off : Z) : outcome :=
  match unpack_any FUEL host ct raw c off with
  | POk v o _ => OVal (canon ct v) (Some o)
  | PFail st => OErr true st
  | PFuel => OOther
  end.
Definition pack_outcome (host : bool) (dl : dstate) (ct : ctab) (v : value) : outcome :=
  match v with
  | VPkt c s => match pack_any_top FUEL host dl ct c s with
                | PBytes b _ => OBytes b
                | PErr st => OErr false st
                | PNoFuel => OOther
                end
  | _ => OOther
  end.
(* construct from a constructor call, then pack *)
Definition run_pack (host : bool) (ct : ctab) (v : value) : outcome :=
  match complete FUEL ct v with
  | Some p => pack_outcome host no_delims ct p
  | None => OOther
  end.
Definition run_roundtrip (host : bool) (ct : ctab) (c : cid) (raw : bytes) (off : Z) : outcome :=
  match unpack_any FUEL host ct raw c off with
  | POk v o t => ORoundTrip (canon ct v) o (pack_outcome host (delims_of t no_delims) ct v)
  | PFail st => OErr true st
  | PFuel => OOther
  end.
Definition run_default (ct : ctab) (v : value) : outcome :=
  match complete FUEL ct v with
  | Some p => OVal (canon ct p) None
  | None => OOther
  end.

(* ---- translation validation of the generated modules: the block structure of a class, as data ---- *)
Inductive bdesc :=
| DStruct (big : bool) (ms : list (Z * bool * Z * bool))   (* members: field index, is Data, size, signed *)
| DLoop (f : fname).
Definition sm_desc (m : smember) : Z * bool * Z * bool :=
  match m with SMInt i n s _ => (i, false, n, s) | SMData i n => (i, true, n, false) end.
Definition block_desc (b : block) : bdesc :=
  match b with BStruct big ms => DStruct big (map sm_desc ms) | BLoop f => DLoop (cf_name f) end.
Definition mdesc_eqb (a b : Z * bool * Z * bool) : bool :=
  let '(i, d, n, s) := a in let '(i', d', n', s') := b in (i =? i') && Bool.eqb d d' && (n =? n') && (d || Bool.eqb s s').
Definition bdesc_eqb (a b : bdesc) : bool :=
  match a, b with
  | DStruct x ms, DStruct y ms' =>
      Bool.eqb x y && (Z.of_nat (length ms) =? Z.of_nat (length ms')) && forallb (fun p => mdesc_eqb (fst p) (snd p)) (combine ms ms')
  | DLoop f, DLoop g => fname_eqb f g
  | _, _ => false
  end.
Definition blocks_eqb (a b : list bdesc) : bool :=
  (Z.of_nat (length a) =? Z.of_nat (length b)) && forallb (fun p => bdesc_eqb (fst p) (snd p)) (combine a b).
(* what bisturi generated for class c (None = that direction runs the generic loop) against gen_blocks *)
Definition blocks_agree (host : bool) (ct : ctab) (c : cid) (want_unpack want_pack : option (list bdesc)) : bool :=
  match ct_get ct c with
  | None => false
  | Some k =>
      let bs := map block_desc (gen_blocks host (cc_conf k) (cc_vectorize k) (cc_fields k) None) in
      match want_unpack with Some w => cc_gen_unpack k && blocks_eqb bs w | None => negb (cc_gen_unpack k) end &&
      match want_pack with Some w => cc_gen_pack k && blocks_eqb bs w | None => negb (cc_gen_pack k) end
  end.

(* ---- the cases the correspondence check evaluates ---- *)
Inductive pcase :=
| CUnpack (c : cid) (raw : bytes) (off : Z) (want : outcome)
| CRound (c : cid) (raw : bytes) (off : Z) (want : outcome)
| CPack (v : value) (want : outcome)
| CDefault (v : value) (want : outcome)
| CDefined (c : cid) (want : bool)
| CBlocks (c : cid) (want_unpack want_pack : option (list bdesc))
| CEq (a b : value) (want_eq want_ne : bool)
| CRepack (c : cid) (raw : bytes) (off : Z) (sets : slots) (want : outcome).   (* unpack, assign fields, pack *)       (* a == b and a != b of two constructed packets *)
Definition agrees (host : bool) (tbl : list (cid * pclass)) (ct : ctab) (x : pcase) : bool :=
  match x with
  | CUnpack c raw off want => outcome_eqb (run_unpack host ct c raw off) want
  | CRound c raw off want => outcome_eqb (run_roundtrip host ct c raw off) want
  | CPack v want => outcome_eqb (run_pack host ct v) want
  | CDefault v want => outcome_eqb (run_default ct v) want
  | CDefined c want => Bool.eqb (match ct_get ct c with Some _ => true | None => false end) want
  | CBlocks c u p => blocks_agree host ct c u p
  | CRepack c raw off sets want =>
      outcome_eqb
        (match unpack_any FUEL host ct raw c off with
         | POk (VPkt c' s) _ t =>
             match map_opt (fun p => match complete FUEL ct (snd p) with Some x => Some (fst p, x) | None => None end) sets with
             | Some sets' => pack_outcome host (delims_of t no_delims) ct (VPkt c' (fold_left (fun acc p => slot_set acc (fst p) (snd p)) sets' s))
             | None => OOther
             end
         | POk _ _ _ => OOther
         | PFail st => OErr true st
         | PFuel => OOther
         end) want
  | CEq a b weq wne =>
      match complete FUEL ct a, complete FUEL ct b with
      | Some x, Some y => Bool.eqb (pkt_eqb FUEL ct x y) weq && Bool.eqb (pkt_neb FUEL ct x y) wne
      | _, _ => false
      end
  end.
Fixpoint bad_cases (host : bool) (tbl : list (cid * pclass)) (ct : ctab) (i : Z) (cs : list pcase) : list Z :=
  match cs with
  | [] => []
  | x :: r => if agrees host tbl ct x then bad_cases host tbl ct (i + 1) r else i :: bad_cases host tbl ct (i + 1) r
  end.
Definition check_group (host : bool) (base : Z) (tbl : list (cid * pclass)) (cs : list pcase) : list Z :=
  bad_cases host tbl (mk_ctab tbl) base cs.
