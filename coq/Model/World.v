(* Model/World.v -- what packets could share (C13).  In this functional model a packet is a value; the only state
   outside a packet is `dstate`: the delimiter a regex-delimited field object remembers (written by unpack -- ghost
   item TDelim -- and read by pack).  The theorems say that for declarations whose regex delimiters are kept in the
   value nothing is ever written to or read from it, and that pack leaves every declared field unchanged.
   Aliasing of mutable sub-objects and real thread interleavings are not expressible here (values have no
   identity): they are checked on the implementation by harness/props/C13.py.  Definitions only. *)
From Coq Require Import ZArith List Bool Lia.
From Bisturi Require Import Base.Bytes Kernel.IntCodec Kernel.Align Kernel.BitsK Kernel.DataK Kernel.Frag
                            Model.Value Model.Decl Model.Unpack Model.Pack Model.Codegen.
Import ListNotations.
Open Scope Z_scope.

(* every regex delimiter, wherever a leaf can come from (also the options of a selector), is kept in the value *)
Fixpoint expr_keeps (e : expr) {struct e} : bool :=
  match e with
  | ELit v => value_keeps v
  | EField _ | EOffset | ERawLen => true
  | EUn _ a => expr_keeps a
  | EBin _ l r => expr_keeps l && expr_keeps r
  | EChoose s opts => expr_keeps s && (fix go (l : list expr) : bool := match l with [] => true | a :: r => expr_keeps a && go r end) opts
  | EChooseD s _ opts => expr_keeps s && (fix go (l : list expr) : bool := match l with [] => true | a :: r => expr_keeps a && go r end) opts
  | EIte c a b => expr_keeps c && expr_keeps a && expr_keeps b
  | EAttr a _ => expr_keeps a
  end
with value_keeps (v : value) {struct v} : bool :=
  match v with
  | VLeaf (LDataRegex _ incl _) => incl
  | VLeaf _ => true
  | VList l | VTuple l => (fix go (l : list value) : bool := match l with [] => true | a :: r => value_keeps a && go r end) l
  | VDict _ vals => (fix go (l : list value) : bool := match l with [] => true | a :: r => value_keeps a && go r end) vals
  | VPkt _ sl | VNew _ sl =>
      (fix go (l : list (fname * value)) : bool := match l with [] => true | (_, a) :: r => value_keeps a && go r end) sl
  | _ => true
  end.
Definition leaf_keeps (l : leaf) : bool := match l with LDataRegex _ incl _ => incl | _ => true end.
Definition elem_keeps (e : elem) : bool :=
  match e with ELeafE l => leaf_keeps l | ERefPkt _ _ => true | ERefSel sel _ => expr_keeps sel end.
Definition cfield_keeps (f : cfield) : bool :=
  match f with
  | CElem _ e | CSeq _ e _ _ _ _ _ | COpt _ e _ _ => elem_keeps e
  | _ => true
  end.
Definition ct_keeps (ct : ctab) : bool := forallb (fun ck => forallb cfield_keeps (cc_fields (snd ck))) ct.

Definition no_delim (t : trace) : Prop := Forall (fun x => match x with TDelim _ _ _ => False | _ => True end) t.
Definition is_bits (f : cfield) : bool := match f with CBits _ _ _ _ _ _ _ _ => true | _ => false end.
Definition ct_no_bits (ct : ctab) : bool := forallb (fun ck => forallb (fun f => negb (is_bits f)) (cc_fields (snd ck))) ct.
