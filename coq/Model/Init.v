(* Model/Init.v -- Packet.__init__ (every field's init with the keyword dict), Packet.__eq__ / __ne__ and
   the list of attribute names __repr__ prints.  Definitions only. *)
From Coq Require Import ZArith List Bool Lia.
From Bisturi Require Import Base.Bytes Kernel.IntCodec Kernel.Align Kernel.BitsK Kernel.DataK Model.Value Model.Decl.
Import ListNotations.
Open Scope Z_scope.

(* the declared default of a leaf: Data(n) without a default gets n NUL bytes *)
Definition leaf_default (l : leaf) : value :=
  match l with
  | LInt _ _ _ d => d
  | LDataSized size is_const d =>
      match d, size, is_const with
      | VBytes [], ELit (VInt n), true => VBytes (repeat 0 (Z.to_nat n))
      | _, _, _ => d
      end
  | LDataMarker _ _ d | LDataRegex _ _ d | LDataEos d => d
  end.

Fixpoint map_opt {A B} (f : A -> option B) (l : list A) : option (list B) :=
  match l with
  | [] => Some []
  | a :: r => match f a, map_opt f r with Some b, Some bs => Some (b :: bs) | _, _ => None end
  end.

Section Init.
Variable rec_complete : value -> option value.     (* builds the objects a value denotes; None = out of fuel *)

Definition kw_or (kw : slots) (name : fname) (dflt : value) : option value :=
  match slot_get kw name with Some v => Some v | None => rec_complete dflt end.

(* the default object of an element *)
Definition elem_default (e : elem) : option value :=
  match e with
  | ELeafE l => Some (leaf_default l)
  | ERefPkt c' proto => rec_complete (VNew c' proto)     (* prototype.clone(): a copy of Cls(overrides) *)
  | ERefSel _ d => rec_complete d                          (* copy.deepcopy(self.default) *)
  end.

Definition init_field (f : cfield) (kw : slots) (s : slots) : option slots :=
  match f with
  | CMove _ _ _ _ => Some s
  | CElem i e =>
      match slot_get kw (FN i) with
      | Some v => Some (slot_set s (FN i) v)
      | None => match elem_default e with Some d => Some (slot_set s (FN i) d) | None => None end
      end
  | CBits i first _ run0 _ _ _ d =>
      let s1 := if first then slot_set s (FBitsI run0) (VInt 0) else s in
      match kw_or kw (FN i) d with Some v => Some (slot_set s1 (FN i) v) | None => None end
  | CSeq i _ _ _ _ d _ => match kw_or kw (FN i) d with Some v => Some (slot_set s (FN i) v) | None => None end
  | COpt i _ _ d => match kw_or kw (FN i) d with Some v => Some (slot_set s (FN i) v) | None => None end
  | CEm _ => Some s
  end.

Fixpoint init_fields (fs : list cfield) (kw : slots) (s : slots) : option slots :=
  match fs with
  | [] => Some s
  | f :: r => match init_field f kw s with Some s1 => init_fields r kw s1 | None => None end
  end.
End Init.

(* complete: evaluate the constructor calls inside a value (keywords first, then the class's __init__) *)
Fixpoint complete (fuel : nat) (ct : ctab) (v : value) {struct fuel} : option value :=
  match fuel with
  | O => None
  | S fuel' =>
      match v with
      | VNew c kw =>
          match map_opt (fun p => match complete fuel' ct (snd p) with Some x => Some (fst p, x) | None => None end) kw,
                ct_get ct c with
          | Some kw', Some k =>
              match init_fields (complete fuel' ct) (cc_fields k) kw' [] with
              | Some s => Some (VPkt c s)
              | None => None
              end
          | _, _ => None
          end
      | VList l => match map_opt (complete fuel' ct) l with Some l' => Some (VList l') | None => None end
      | _ => Some v
      end
  end.
Definition init_pkt (fuel : nat) (ct : ctab) (c : cid) (kw : slots) : option value := complete fuel ct (VNew c kw).

(* the names get_fields() lists: every compiled field, the Move pseudo-fields included *)
Definition field_names (k : cclass) : list fname := map cf_name (cc_fields k).

(* Packet.__eq__ (after the D4 fix: a name neither packet holds is skipped; one holding it and the other
   not makes them unequal); values compare with python == *)
Fixpoint pkt_eqb (fuel : nat) (ct : ctab) (a b : value) {struct fuel} : bool :=
  match fuel with
  | O => false
  | S fuel' =>
      match a, b with
      | VPkt c1 s1, VPkt c2 s2 =>
          (c1 =? c2) &&
          match ct_get ct c1 with
          | None => false
          | Some k =>
              forallb (fun f => match slot_get s1 f, slot_get s2 f with
                                | None, None => true
                                | Some x, Some y => pkt_eqb fuel' ct x y
                                | _, _ => false
                                end) (field_names k)
          end
      | VList x, VList y =>
          (Z.of_nat (length x) =? Z.of_nat (length y)) && forallb (fun p => pkt_eqb fuel' ct (fst p) (snd p)) (combine x y)
      | VPkt _ _, _ | _, VPkt _ _ => false
      | _, _ => value_eqb a b
      end
  end.
Definition pkt_neb (fuel : nat) (ct : ctab) (a b : value) : bool := negb (pkt_eqb fuel ct a b).

(* the names __repr__ prints: those that hold a value *)
Definition repr_names (ct : ctab) (v : value) : list fname :=
  match v with
  | VPkt c s => match ct_get ct c with
                | Some k => filter (fun f => match slot_get s f with Some _ => true | None => false end) (field_names k)
                | None => []
                end
  | _ => []
  end.
