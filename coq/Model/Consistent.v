(* Model/Consistent.v -- "a value satisfies its own declaration" (C02), as a boolean predicate, for the sequential
   sublanguage: integers, sized byte strings (constant / field / local expression), marker-delimited byte strings
   (no search window), references to packets, counted sequences (no per-element alignment, no when), optionals;
   no positioning, no bit runs, no regex / read-to-end, no until-loops, no run-time selected references.
   The predicate walks the fields in order with the slots of the fields before the current one (what the
   conditions and sizes see when parsing).  Definitions only. *)
From Coq Require Import ZArith List Bool Lia.
From Bisturi Require Import Base.Bytes Kernel.IntCodec Kernel.Align Kernel.BitsK Kernel.DataK Model.Value Model.Decl Model.Wf.
Import ListNotations.
Open Scope Z_scope.

(* conditions and sizes are evaluated without offset / raw length (they must be local expressions) *)
Definition cctx (s : slots) : ectx := {| e_slots := s; e_offset := None; e_rawlen := None |}.

Definition leaf_seq_ok (l : leaf) : bool :=
  match l with
  | LInt n _ _ _ => 1 <=? n
  | LDataSized size _ _ => expr_local size
  | LDataMarker m _ _ => negb (blen m =? 0)
  | _ => false
  end.

(* the value v satisfies leaf l, given the slots parsed before it *)
Definition leaf_consistent (cf : lconf) (l : leaf) (before : slots) (v : value) : bool :=
  match l, v with
  | LInt n signed _ _, VInt z => (int_lo n signed <=? z) && (z <? int_hi n signed)
  | LDataSized size _ _, VBytes b =>
      wf_bytesb b && match eval_int (cctx before) size with Ok n => n =? blen b | Exn _ => false end
  | LDataMarker m incl _, VBytes b =>
      wf_bytesb b &&
      match lc_sbl cf with
      | Some l => l =? 0
      | None => true
      end &&
      (* the delimiter first occurs exactly at the end of the body *)
      (if incl
       then match find b m with Some c => c + blen m =? blen b | None => false end
       else match find (b ++ m) m with Some c => c =? blen b | None => false end)
  | _, _ => false
  end.

(* an element that looks at no field at all: what a repeated field may hold in this sublanguage *)
Definition elem_static (e : elem) : bool :=
  match e with
  | ELeafE (LInt _ _ _ _) => true
  | ELeafE (LDataSized (ELit (VInt _)) _ _) => true
  | ELeafE (LDataMarker _ _ _) => true
  | ERefPkt _ _ => true
  | _ => false
  end.

Section C.
Variable rec_consistent : cid -> slots -> bool.       (* a nested packet value satisfies its class *)

Definition elem_consistent (cf : lconf) (e : elem) (before : slots) (v : value) : bool :=
  match e, v with
  | ELeafE l, _ => leaf_seq_ok l && leaf_consistent cf l before v
  | ERefPkt c' _, VPkt c'' s' => (c' =? c'') && rec_consistent c' s'
  | _, _ => false
  end.

(* field f of the value s satisfies its declaration, given the slots `before` it (the fields already walked) *)
Definition field_consistent (cf : lconf) (f : cfield) (before : slots) (s : slots) : bool :=
  match f with
  | CElem i e => match slot_get s (FN i) with Some v => elem_consistent cf e before v | None => false end
  | CSeq i e (Some ce) None None _ al =>
      (al =? 1) && expr_local ce && elem_static e &&
      match slot_get s (FN i), eval_int (cctx (slot_set before (FN i) (VList []))) ce with
      | Some (VList l), Ok n => (Z.of_nat (length l) =? Z.max n 0) && forallb (elem_consistent cf e before) l
      | _, _ => false
      end
  | COpt i e w _ =>
      expr_local w &&
      match slot_get s (FN i), eval (cctx before) w with
      | Some VNone, Ok c => negb (truth c)
      | Some v, Ok c => truth c && elem_consistent cf e before v
      | _, _ => false
      end
  | _ => false
  end.

(* walk the fields in order; `before` accumulates the declared fields seen so far *)
Fixpoint fields_consistent (cf : lconf) (fs : list cfield) (before : slots) (s : slots) : bool :=
  match fs with
  | [] => true
  | f :: r =>
      field_consistent cf f before s &&
      match slot_get s (cf_name f) with
      | Some v => fields_consistent cf r (slot_set before (cf_name f) v) s
      | None => false
      end
  end.
End C.

Fixpoint consistent (fuel : nat) (ct : ctab) (c : cid) (s : slots) : bool :=
  match fuel with
  | O => false
  | S fuel' =>
      match ct_get ct c with
      | None => false
      | Some k => fields_consistent (consistent fuel' ct) (cc_conf k) (cc_fields k) [] s
      end
  end.
