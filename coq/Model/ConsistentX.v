(* Model/ConsistentX.v -- "a value satisfies its own declaration" (C02) for a larger language than Model/Consistent.v:
   besides integers, sized / marker-delimited byte strings, references to packets, counted sequences and optionals it
   covers
     * runs of bit fields (every member within its width; the run's shared integer slot holds some in-range integer,
       as the constructor leaves it),
     * until-loops (the condition, evaluated on the list built so far, is false on every proper prefix and true on the
       whole list; at least one element; the list is short enough for the loop bound of the parser),
     * per-element alignment of repeated fields,
     * forward positioning: a constant alignment (any reference) and a non-negative constant shift from the current
       position (absolute positions depend on the layout and are excluded),
     * the empty marker field Em,
     * references to a field or packet selected at run time by a local expression over the fields before it.
   Still excluded: regex / read-to-end delimiters, absolute and computed positions.
   The side conditions on expressions / markers are those of Proofs/PackUnpack.v (expr_plain, leaf_plain), which this
   file imports for that reason.  Definitions only. *)
From Coq Require Import ZArith List Bool Lia.
From Bisturi Require Import Base.Bytes Kernel.IntCodec Kernel.Align Kernel.BitsK Kernel.DataK Model.Value Model.Decl Model.Wf
                            Model.WfBits Model.Consistent Proofs.PackUnpack.
Import ListNotations.
Open Scope Z_scope.

(* a forward move: constant alignment, or constant non-negative shift from the current position *)
Definition move_fwd (arg : marg) (rf : reference) (al : bool) : bool :=
  match arg with
  | MConst z => if al then 0 <? z else match rf with RCur => 0 <=? z | _ => false end
  | _ => false
  end.

Section C.
Variable rec_consistent : cid -> slots -> bool.       (* a nested packet value satisfies its class *)

Definition elem_consistentx (cf : lconf) (e : elem) (before : slots) (v : value) : bool :=
  match e with
  | ELeafE l => leaf_seq_ok l && leaf_consistent cf l before v
  | ERefPkt c' _ => match v with VPkt c'' s' => (c' =? c'') && rec_consistent c' s' | _ => false end
  | ERefSel sel _ =>
      expr_plain sel &&
      match eval (cctx before) sel with
      | Ok (VLeaf l) =>
          (* the selected Field is compiled with an empty configuration; the value must not be a packet *)
          match v with
          | VInt _ | VBytes _ => leaf_plain l && leaf_seq_ok l && leaf_consistent empty_conf l before v
          | _ => false
          end
      | Ok (VPkt c' _) | Ok (VNew c' _) =>
          match v with VPkt c'' s' => (c' =? c'') && rec_consistent c' s' | _ => false end
      | _ => false
      end
  end.

(* the until-condition on the prefixes of the list: false on [x1..xk] for k < n, true on the whole list *)
Fixpoint until_ok (u : expr) (before : slots) (i : Z) (done rest : list value) : bool :=
  match rest with
  | [] => false
  | x :: r =>
      let l := done ++ [x] in
      match eval (cctx (slot_set before (FN i) (VList l))) u with
      | Ok c => match r with
                | [] => truth c
                | _ => negb (truth c) && until_ok u before i l r
                end
      | Exn _ => false
      end
  end.

Definition field_consistentx (loop_fuel : nat) (cf : lconf) (f : cfield) (before : slots) (s : slots) : bool :=
  match f with
  | CMove _ arg rf al => move_fwd arg rf al
  | CEm _ => true
  | CElem i e => match slot_get s (FN i) with Some v => elem_plain e && elem_consistentx cf e before v | None => false end
  | CBits i _ _ run0 shift mask nbytes _ =>
      match slot_get s (FN i), slot_get s (FBitsI run0) with
      | Some (VInt z), Some (VInt iv) =>
          (0 <=? z) && (z <? 2 ^ bits_width shift mask) && (0 <=? iv) && (iv <? 2 ^ (8 * nbytes))
      | _, _ => false
      end
  | CSeq i e (Some ce) None None _ al =>
      (1 <=? al) && expr_local ce && expr_plain ce && elem_plain e && elem_static e &&
      match slot_get s (FN i), eval_int (cctx (slot_set before (FN i) (VList []))) ce with
      | Some (VList l), Ok n => (Z.of_nat (length l) =? Z.max n 0) && forallb (elem_consistentx cf e before) l
      | _, _ => false
      end
  | CSeq i e None (Some u) None _ al =>
      (1 <=? al) && expr_local u && expr_plain u && elem_plain e && elem_static e &&
      match slot_get s (FN i) with
      | Some (VList l) =>
          (Nat.leb (length l) loop_fuel) && until_ok u before i [] l && forallb (elem_consistentx cf e before) l
      | _ => false
      end
  | COpt i e w _ =>
      expr_local w && expr_plain w && elem_plain e &&
      match slot_get s (FN i), eval (cctx before) w with
      | Some VNone, Ok c => negb (truth c)
      | Some v, Ok c => truth c && elem_consistentx cf e before v
      | _, _ => false
      end
  | _ => false
  end.

(* walk the fields in order; `before` accumulates the declared value-bearing fields seen so far *)
Fixpoint fields_consistentx (loop_fuel : nat) (cf : lconf) (fs : list cfield) (before : slots) (s : slots) : bool :=
  match fs with
  | [] => true
  | f :: r =>
      field_consistentx loop_fuel cf f before s &&
      match f with
      | CMove _ _ _ _ | CEm _ => fields_consistentx loop_fuel cf r before s
      | _ => match slot_get s (cf_name f) with
             | Some v => fields_consistentx loop_fuel cf r (slot_set before (cf_name f) v) s
             | None => false
             end
      end
  end.
End C.

Fixpoint consistentx (fuel : nat) (ct : ctab) (c : cid) (s : slots) : bool :=
  match fuel with
  | O => false
  | S fuel' =>
      match ct_get ct c with
      | None => false
      | Some k => fields_consistentx (consistentx fuel' ct) fuel' (cc_conf k) (cc_fields k) [] s
      end
  end.

(* no positioning pseudo-field anywhere: then the parse of the serialized packet ends exactly at its end *)
Definition ct_nomoves (ct : ctab) : bool :=
  forallb (fun ck => forallb (fun f => match f with CMove _ _ _ _ => false | _ => true end) (cc_fields (snd ck))) ct.
