(* Model/Wf3.v -- side conditions of the round-trip theorem (C01): what a declaration must satisfy, relative
   to the start offset `base` of the parse, for serialization to reproduce the consumed bytes.
   Definitions only. *)
From Coq Require Import ZArith List Bool Lia.
From Bisturi Require Import Base.Bytes Kernel.IntCodec Kernel.Align Kernel.BitsK Kernel.DataK
                            Model.Value Model.Decl.
Import ListNotations.
Open Scope Z_scope.

(* an expression that is evaluated again when serializing (a move argument, a selector): it must not look at
   the offset / raw buffer (absent when packing) nor at field i itself (a list still growing while parsing) *)
Fixpoint expr_scoped (i : Z) (e : expr) {struct e} : bool :=
  match e with
  | ELit _ => true
  | EField (FN j) => negb (j =? i)
  | EField _ => false
  | EUn _ a => expr_scoped i a
  | EBin _ l r => expr_scoped i l && expr_scoped i r
  | EChoose s opts => expr_scoped i s && (fix go (l : list expr) : bool := match l with [] => true | a :: r => expr_scoped i a && go r end) opts
  | EChooseD s _ opts => expr_scoped i s && (fix go (l : list expr) : bool := match l with [] => true | a :: r => expr_scoped i a && go r end) opts
  | EIte c a b => expr_scoped i c && expr_scoped i a && expr_scoped i b
  | EAttr a _ => expr_scoped i a
  | EOffset | ERawLen => false
  end.

(* a leaf whose encoding determines its value and back: at least one byte for integers, the delimiter kept
   for regex-delimited strings *)
Definition leaf_rt (l : leaf) : bool :=
  match l with
  | LInt n _ _ _ => 1 <=? n
  | LDataRegex _ incl _ => incl
  | _ => true
  end.
(* every Field literal an expression can return is such a leaf *)
Fixpoint expr_leaves_rt (e : expr) {struct e} : bool :=
  match e with
  | ELit v => value_leaves_rt v
  | EField _ | EOffset | ERawLen => true
  | EUn _ a => expr_leaves_rt a
  | EBin _ l r => expr_leaves_rt l && expr_leaves_rt r
  | EChoose s opts => expr_leaves_rt s && (fix go (l : list expr) : bool := match l with [] => true | a :: r => expr_leaves_rt a && go r end) opts
  | EChooseD s _ opts => expr_leaves_rt s && (fix go (l : list expr) : bool := match l with [] => true | a :: r => expr_leaves_rt a && go r end) opts
  | EIte c a b => expr_leaves_rt c && expr_leaves_rt a && expr_leaves_rt b
  | EAttr a _ => expr_leaves_rt a
  end
with value_leaves_rt (v : value) {struct v} : bool :=
  match v with
  | VLeaf l => leaf_rt l
  | VList l | VTuple l => (fix go (l : list value) : bool := match l with [] => true | a :: r => value_leaves_rt a && go r end) l
  | VDict _ vals => (fix go (l : list value) : bool := match l with [] => true | a :: r => value_leaves_rt a && go r end) vals
  | VPkt _ sl | VNew _ sl =>
      (fix go (l : list (fname * value)) : bool := match l with [] => true | (_, a) :: r => value_leaves_rt a && go r end) sl
  | _ => true
  end.

Definition elem_rt (i : Z) (e : elem) : bool :=
  match e with
  | ELeafE l => leaf_rt l
  | ERefPkt _ _ => true
  | ERefSel sel _ => expr_scoped i sel && expr_leaves_rt sel
  end.

(* positioning relative to the start of the data is only reproducible when the parse started at position 0
   (or, for an alignment, when it divides the start offset): finding D10 *)
Definition cfield_rt (base : Z) (f : cfield) : bool :=
  match f with
  | CMove i arg rf al =>
      match arg with
      | MConst z => (if al then 0 <? z else true) &&
                    match rf with RBegins => if al then base mod z =? 0 else base =? 0 | _ => true end
      | MField (FN j) => negb al && negb (j =? i) && match rf with RBegins => base =? 0 | _ => true end
      | MField _ => false
      | MFun e => negb al && expr_scoped i e && match rf with RBegins => base =? 0 | _ => true end
      end
  | CElem i e => elem_rt i e
  | CBits _ _ _ _ _ _ _ _ => false          (* bit runs: covered by C07 and the correspondence, not by this theorem *)
  | CSeq i e _ _ _ _ al => elem_rt i e && (0 <? al) && (base mod al =? 0)
  | COpt i e _ _ => elem_rt i e
  | CEm _ => true
  end.
Definition ct_rt (base : Z) (ct : ctab) : bool := forallb (fun ck => forallb (cfield_rt base) (cc_fields (snd ck))) ct.
