(* Model/Value.v -- python values that packets hold, field names, exceptions, and the expression language
   (deferred field expressions and the documented callables) with its eager evaluation.
   Definitions only. *)
From Coq Require Import ZArith List Bool Lia.
From Bisturi Require Import Base.Bytes Kernel.DataK Kernel.IntCodec Kernel.Align.
Import ListNotations.
Open Scope Z_scope.

Definition cid := Z.          (* packet class identifier *)

(* attribute names of a packet: the declared field i of the class, and the hidden slots derived from it *)
Inductive fname :=
| FN (i : Z)            (* the field as declared *)
| FShift (i : Z)        (* _shift_to_<name>: the Move pseudo-field inserted before field i *)
| FSeqElem (i : Z)      (* _seq_elem__<name> *)
| FOptElem (i : Z)      (* _opt_elem__<name> *)
| FBitsI (i : Z)        (* _bits__<names of the run>: the shared integer of the run whose first member is i *)
| FRun (i j : Z).       (* "between '<name i>' and '<name j>'": a struct run in generated code (error reports only) *)

Definition fname_eqb (a b : fname) : bool :=
  match a, b with
  | FN i, FN j | FShift i, FShift j | FSeqElem i, FSeqElem j | FOptElem i, FOptElem j | FBitsI i, FBitsI j => i =? j
  | FRun i j, FRun i' j' => (i =? i') && (j =? j')
  | _, _ => false
  end.

(* ---- the declaration language's leaves are needed inside values (a run-time selected field is a value) ---- *)
Inductive exn := TypeError | ZeroDivisionError | IndexError | KeyError | ValueError | AttributeError
               | AssertionError | StructError | OverflowError | GenericError | NotImplementedError.

Inductive bop := Add | Sub | Mul | FloorDiv | Mod | Le | Lt | Ge | Gt | Eq | Ne | BAnd | BOr | BXor | RShift | LShift | GetItem.
Inductive uop := Neg | Inv | Truth | Len.

Inductive value :=
| VInt (z : Z)
| VBool (b : bool)
| VBytes (b : bytes)
| VNone
| VList (l : list value)
| VTuple (l : list value)
| VDict (keys : list value) (vals : list value)
| VPkt (c : cid) (slots : list (fname * value))
| VNew (c : cid) (kw : list (fname * value))   (* a constructor call Cls(k=v, ..) written in a declaration or a test
                                                  input; Init.complete turns it into the VPkt it builds *)
| VLeaf (l : leaf)                      (* a Field instance used as a value (option of a selector) *)
with expr :=
| ELit (v : value)
| EField (f : fname)                    (* getattr(pkt, name) *)
| EUn (o : uop) (a : expr)
| EBin (o : bop) (l r : expr)
| EChoose (sel : expr) (opts : list expr)                 (* sel.chooses([..]) / chooses(a, b, ..) *)
| EChooseD (sel : expr) (keys : list value) (opts : list expr)   (* sel.chooses({k: v}) / chooses(k=v) *)
| EIte (c a b : expr)                   (* c.if_true_then_else(a, b): both branches are evaluated *)
| EAttr (e : expr) (f : fname)          (* lambda only: getattr(<packet valued expr>, name) *)
| EOffset                               (* lambda only: the offset argument *)
| ERawLen                               (* lambda only: len(raw) *)
with leaf :=
| LInt (n : Z) (signed : bool) (fe : option endian) (dflt : value)
| LDataSized (size : expr) (is_const : bool) (dflt : value)
| LDataMarker (m : bytes) (incl : bool) (dflt : value)
| LDataRegex (r : regex) (incl : bool) (dflt : value)
| LDataEos (dflt : value).

Definition slots := list (fname * value).
Fixpoint slot_get (s : slots) (f : fname) : option value :=
  match s with
  | [] => None
  | (g, v) :: r => if fname_eqb f g then Some v else slot_get r f
  end.
(* setattr: overwrite in place if present (keeps the position), else append *)
Fixpoint slot_set (s : slots) (f : fname) (v : value) : slots :=
  match s with
  | [] => [(f, v)]
  | (g, w) :: r => if fname_eqb f g then (g, v) :: r else (g, w) :: slot_set r f v
  end.

Inductive res (A : Type) := Ok (a : A) | Exn (e : exn).
Arguments Ok {A} _.
Arguments Exn {A} _.
Definition bind {A B} (r : res A) (f : A -> res B) : res B :=
  match r with Ok a => f a | Exn e => Exn e end.
Notation "'do' x <- r ; k" := (bind r (fun x => k)) (at level 200, x name, r at level 100, k at level 200).

(* ---- python operator semantics on the values the generated declarations use ---- *)
Definition as_int (v : value) : option Z :=
  match v with VInt z => Some z | VBool b => Some (if b then 1 else 0) | _ => None end.

Definition truth (v : value) : bool :=
  match v with
  | VInt z => negb (z =? 0)
  | VBool b => b
  | VBytes b => negb (blen b =? 0)
  | VNone => false
  | VList l | VTuple l => match l with [] => false | _ => true end
  | VDict k _ => match k with [] => false | _ => true end
  | VPkt _ _ | VNew _ _ => true
  | VLeaf _ => true
  end.

(* python == on the canonical values; packets compare field by field in bisturi (Packet.__eq__), which the
   generated expressions never exercise: they compare integers, bytes, None and lists of those *)
Fixpoint value_eqb (a b : value) {struct a} : bool :=
  match a, b with
  | VBytes x, VBytes y => (blen x =? blen y) && forallb (fun p => fst p =? snd p) (combine x y)
  | VNone, VNone => true
  | VList x, VList y | VTuple x, VTuple y =>
      (fix go (x y : list value) {struct x} : bool :=
         match x, y with
         | [], [] => true
         | a :: x', b :: y' => value_eqb a b && go x' y'
         | _, _ => false
         end) x y
  | _, _ => match as_int a, as_int b with Some x, Some y => x =? y | _, _ => false end
  end.

Definition py_index {A} (l : list A) (i : Z) : option A :=
  let n := Z.of_nat (length l) in
  let j := if i <? 0 then i + n else i in
  if (0 <=? j) && (j <? n) then nth_error l (Z.to_nat j) else None.

Definition int_bop (o : bop) (x y : Z) : res value :=
  match o with
  | Add => Ok (VInt (x + y))
  | Sub => Ok (VInt (x - y))
  | Mul => Ok (VInt (x * y))
  | FloorDiv => if y =? 0 then Exn ZeroDivisionError else Ok (VInt (x / y))
  | Mod => if y =? 0 then Exn ZeroDivisionError else Ok (VInt (x mod y))
  | Le => Ok (VBool (x <=? y))
  | Lt => Ok (VBool (x <? y))
  | Ge => Ok (VBool (x >=? y))
  | Gt => Ok (VBool (x >? y))
  | Eq => Ok (VBool (x =? y))
  | Ne => Ok (VBool (negb (x =? y)))
  | BAnd => Ok (VInt (Z.land x y))
  | BOr => Ok (VInt (Z.lor x y))
  | BXor => Ok (VInt (Z.lxor x y))
  | RShift => if y <? 0 then Exn ValueError else Ok (VInt (Z.shiftr x y))
  | LShift => if y <? 0 then Exn ValueError else Ok (VInt (Z.shiftl x y))
  | GetItem => Exn TypeError
  end.
(* and/or/xor of two python bools stay bools *)
Definition bool_bop (o : bop) (x y : bool) : option value :=
  match o with
  | BAnd => Some (VBool (x && y))
  | BOr => Some (VBool (x || y))
  | BXor => Some (VBool (xorb x y))
  | _ => None
  end.

Fixpoint dict_lookup (keys vals : list value) (k : value) : option value :=
  match keys, vals with
  | k' :: kr, v :: vr => if value_eqb k k' then Some v else dict_lookup kr vr k
  | _, _ => None
  end.

Definition apply_bop (o : bop) (a b : value) : res value :=
  match o with
  | Eq => Ok (VBool (value_eqb a b))
  | Ne => Ok (VBool (negb (value_eqb a b)))
  | GetItem =>
      match a with
      | VList l | VTuple l =>
          match as_int b with
          | Some i => match py_index l i with Some v => Ok v | None => Exn IndexError end
          | None => Exn TypeError
          end
      | VBytes l =>
          match as_int b with
          | Some i => match py_index l i with Some v => Ok (VInt v) | None => Exn IndexError end
          | None => Exn TypeError
          end
      | VDict ks vs => match dict_lookup ks vs b with Some v => Ok v | None => Exn KeyError end
      | _ => Exn TypeError
      end
  | _ =>
      match a, b with
      | VBool x, VBool y =>
          match bool_bop o x y with
          | Some v => Ok v
          | None => int_bop o (if x then 1 else 0) (if y then 1 else 0)
          end
      | _, _ =>
          match as_int a, as_int b with
          | Some x, Some y => int_bop o x y
          | _, _ => Exn TypeError
          end
      end
  end.

Definition apply_uop (o : uop) (a : value) : res value :=
  match o with
  | Neg => match as_int a with Some x => Ok (VInt (- x)) | None => Exn TypeError end
  | Inv => match as_int a with Some x => Ok (VInt (Z.lnot x)) | None => Exn TypeError end
  | Truth => Ok (VBool (truth a))
  | Len =>
      match a with
      | VBytes l => Ok (VInt (blen l))
      | VList l | VTuple l => Ok (VInt (Z.of_nat (length l)))
      | VDict k _ => Ok (VInt (Z.of_nat (length k)))
      | _ => Exn TypeError
      end
  end.

(* the evaluation context of a callable: the packet so far, the offset argument, len(raw) *)
Record ectx := { e_slots : slots; e_offset : option Z; e_rawlen : option Z }.

(* eager, left to right, first exception wins: the meaning of the python expression *)
Fixpoint eval (cx : ectx) (e : expr) {struct e} : res value :=
  match e with
  | ELit v => Ok v
  | EField f => match slot_get (e_slots cx) f with Some v => Ok v | None => Exn AttributeError end
  | EUn o a => do x <- eval cx a; apply_uop o x
  | EBin o l r => do x <- eval cx l; do y <- eval cx r; apply_bop o x y
  | EChoose sel opts =>
      do s <- eval cx sel;
      do vs <- (fix go (es : list expr) : res (list value) :=
                  match es with
                  | [] => Ok []
                  | a :: r => do y <- eval cx a; do ys <- go r; Ok (y :: ys)
                  end) opts;
      apply_bop GetItem (VTuple vs) s
  | EChooseD sel keys opts =>
      do s <- eval cx sel;
      do vs <- (fix go (es : list expr) : res (list value) :=
                  match es with
                  | [] => Ok []
                  | a :: r => do y <- eval cx a; do ys <- go r; Ok (y :: ys)
                  end) opts;
      apply_bop GetItem (VDict keys vs) s
  | EIte c a b =>
      do cv <- eval cx c; do x <- eval cx a; do y <- eval cx b;
      Ok (if truth cv then x else y)
  | EAttr a f =>
      do x <- eval cx a;
      match x with
      | VPkt _ s => match slot_get s f with Some v => Ok v | None => Exn AttributeError end
      | _ => Exn AttributeError
      end
  | EOffset => match e_offset cx with Some o => Ok (VInt o) | None => Exn TypeError end
  | ERawLen => match e_rawlen cx with Some o => Ok (VInt o) | None => Exn TypeError end
  end.

Definition eval_int (cx : ectx) (e : expr) : res Z :=
  do v <- eval cx e; match as_int v with Some z => Ok z | None => Exn TypeError end.
