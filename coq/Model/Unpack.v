(* Model/Unpack.v -- the parsing interpreter: Packet.unpack_impl (generic field loop), every field's
   unpack, error wrapping into PacketError with its stack.  Open recursion: nested packets go through
   the Section variable rec_unpack; unpack_pkt ties the knot on fuel.  Definitions only. *)
From Coq Require Import ZArith List Bool Lia.
From Bisturi Require Import Base.Bytes Kernel.IntCodec Kernel.Align Kernel.BitsK Kernel.DataK Model.Value Model.Decl.
Import ListNotations.
Open Scope Z_scope.

(* ghost output: what every leaf consumed, and the delimiters a field object remembers (class-level state) *)
Inductive titem :=
| TChunk (off : Z) (b : bytes)               (* a leaf consumed bytes b at position off *)
| TDelim (c : cid) (f : fname) (d : bytes)   (* a field object remembered the delimiter d *)
| TMove (target : Z).                        (* a Move pseudo-field set the cursor to target *)
Definition trace := list titem.

Definition stack := list (Z * fname * cid).     (* PacketError.fields_stack: innermost first *)

(* outcome of parsing a packet *)
Inductive pres := POk (v : value) (off : Z) (t : trace) | PFail (st : stack) | PFuel.
(* outcome of one field: new slots, new offset, trace | a plain exception | a PacketError from a nested packet *)
Inductive fres := FOk (s : slots) (off : Z) (t : trace) | FExn (e : exn) | FFail (st : stack) | FFuel.

Section Fields.
Variable host_big : bool.          (* sys.byteorder == 'big' *)
Variable raw : bytes.
Variable rec_unpack : cid -> Z -> pres.
Variable loop_fuel : nat.          (* bound on the iterations of an until-loop *)

Definition mkctx (s : slots) (off : Z) : ectx :=
  {| e_slots := s; e_offset := Some off; e_rawlen := Some (blen raw) |}.

(* a leaf at a cursor: value, new cursor, trace *)
Definition unpack_leaf (cf : lconf) (c : cid) (name : fname) (l : leaf) (s : slots) (off : Z)
  : res (value * Z * trace) :=
  match l with
  | LInt n signed fe _ =>
      match int_unpack n signed (is_bigendian (resolve_endianness fe (lc_endianness cf)) host_big) raw off with
      | Some (v, o') => Ok (VInt v, o', [TChunk off (slice raw off o')])
      | None => Exn (if has_struct_code n then StructError else GenericError)
      end
  | LDataSized size _ _ =>
      do bc <- eval_int (mkctx s off) size;
      match data_sized raw off bc with
      | Some (v, o') => Ok (VBytes v, o', [TChunk off v])
      | None => Exn GenericError
      end
  | LDataMarker m incl _ =>
      match data_marker raw off (lc_sbl cf) m incl with
      | Some (v, o') => Ok (VBytes v, o', [TChunk off (slice raw off o')])
      | None => Exn AssertionError
      end
  | LDataRegex r incl _ =>
      match data_regex raw off (lc_sbl cf) r incl with
      | Some (v, o', d) => Ok (VBytes v, o', TChunk off (slice raw off o') :: (if incl then [] else [TDelim c name d]))
      | None => Exn AssertionError
      end
  | LDataEos _ =>
      let '(v, o') := data_eos raw off in Ok (VBytes v, o', [TChunk off v])
  end.

(* one element (what Ref / a plain leaf does), storing its value in slot `name` *)
Definition unpack_elem (cf : lconf) (c : cid) (name : fname) (e : elem) (s : slots) (off : Z) : fres :=
  match e with
  | ELeafE l =>
      match unpack_leaf cf c name l s off with
      | Ok (v, o', t) => FOk (slot_set s name v) o' t
      | Exn x => FExn x
      end
  | ERefPkt c' _ =>
      match rec_unpack c' off with
      | POk v o' t => FOk (slot_set s name v) o' t
      | PFail st => FFail st
      | PFuel => FFuel
      end
  | ERefSel sel _ =>
      match eval (mkctx s off) sel with
      | Exn x => FExn x
      | Ok (VLeaf l) =>
          (* the selected Field is compiled with an empty configuration *)
          match unpack_leaf empty_conf c name l s off with
          | Ok (v, o', t) => FOk (slot_set s name v) o' t
          | Exn x => FExn x
          end
      | Ok (VPkt c' _) | Ok (VNew c' _) =>
          match rec_unpack c' off with
          | POk v o' t => FOk (slot_set s name v) o' t
          | PFail st => FFail st
          | PFuel => FFuel
          end
      | Ok _ => FExn AssertionError
      end
  end.

Definition append_to (s : slots) (name : fname) (v : value) : slots :=
  match slot_get s name with
  | Some (VList l) => slot_set s name (VList (l ++ [v]))
  | _ => s
  end.
Definition elem_value (s : slots) (ename : fname) : value :=
  match slot_get s ename with Some v => v | None => VNone end.

(* `count` elements back to back, each after its alignment *)
Fixpoint unpack_count (cf : lconf) (c : cid) (i : Z) (e : elem) (al : Z) (k : nat) (s : slots) (off : Z) (t : trace) : fres :=
  match k with
  | O => FOk s off t
  | S k' =>
      match seq_align al off with
      | None => FExn ZeroDivisionError
      | Some o1 =>
          match unpack_elem cf c (FSeqElem i) e s o1 with
          | FOk s1 o2 t1 => unpack_count cf c i e al k' (append_to s1 (FN i) (elem_value s1 (FSeqElem i))) o2 (t ++ t1)
          | r => r
          end
      end
  end.
(* while not until(...): one more element *)
Fixpoint unpack_until (fuel : nat) (cf : lconf) (c : cid) (i : Z) (e : elem) (al : Z) (until : expr)
                      (s : slots) (off : Z) (t : trace) : fres :=
  match eval (mkctx s off) until with
  | Exn x => FExn x
  | Ok v =>
      if truth v then FOk s off t
      else match fuel with
           | O => FFuel
           | S fuel' =>
               match seq_align al off with
               | None => FExn ZeroDivisionError
               | Some o1 =>
                   match unpack_elem cf c (FSeqElem i) e s o1 with
                   | FOk s1 o2 t1 =>
                       unpack_until fuel' cf c i e al until (append_to s1 (FN i) (elem_value s1 (FSeqElem i))) o2 (t ++ t1)
                   | r => r
                   end
               end
           end
  end.

Definition unpack_field (cf : lconf) (c : cid) (f : cfield) (s : slots) (off ipp : Z) : fres :=
  match f with
  | CMove i arg rf al =>
      let mv := match arg with
                | MConst z => Ok z
                | MField g => match slot_get s g with
                              | Some v => match as_int v with Some z => Ok z | None => Exn TypeError end
                              | None => Exn AttributeError
                              end
                | MFun e => eval_int (mkctx s off) e
                end in
      match mv with
      | Exn x => FExn x
      | Ok z => if al && (z =? 0) then FExn ZeroDivisionError
                else match move_unpack al rf z off ipp with
                     | Some o' => FOk s o' [TMove o']
                     | None => FExn GenericError
                     end
      end
  | CElem i e => unpack_elem cf c (FN i) e s off
  | CBits i first _ run0 shift mask nbytes _ =>
      let r := if first then
                 match int_unpack nbytes false true raw off with
                 | Some (v, o') => Ok (slot_set s (FBitsI run0) (VInt v), o', [TChunk off (slice raw off o')])
                 | None => Exn (if has_struct_code nbytes then StructError else GenericError)
                 end
               else Ok (s, off, []) in
      match r with
      | Exn x => FExn x
      | Ok (s1, o', t) =>
          match slot_get s1 (FBitsI run0) with
          | Some (VInt iv) => FOk (slot_set s1 (FN i) (VInt (bits_get iv mask shift))) o' t
          | _ => FExn AttributeError
          end
      end
  | CSeq i e count until when _ al =>
      let s0 := slot_set s (FN i) (VList []) in
      let cx := mkctx s0 off in
      match (match count with Some ce => eval_int cx ce | None => Ok 1 end) with
      | Exn x => FExn x
      | Ok n =>
          let skip := match when with
                      | None => Ok false
                      | Some w => if n <=? 0 then Ok true
                                  else match eval cx w with Ok v => Ok (negb (truth v)) | Exn x => Exn x end
                      end in
          match skip with
          | Exn x => FExn x
          | Ok true => FOk s0 off []
          | Ok false =>
              match unpack_count cf c i e al (Z.to_nat n) s0 off [] with
              | FOk s1 o1 t1 =>
                  match until with
                  | None => FOk s1 o1 t1
                  | Some u => unpack_until loop_fuel cf c i e al u s1 o1 t1
                  end
              | r => r
              end
          end
      end
  | COpt i e when _ =>
      match eval (mkctx s off) when with
      | Exn x => FExn x
      | Ok v =>
          if truth v then
            match unpack_elem cf c (FOptElem i) e s off with
            | FOk s1 o1 t1 => FOk (slot_set s1 (FN i) (elem_value s1 (FOptElem i))) o1 t1
            | r => r
            end
          else FOk (slot_set s (FN i) VNone) off []
      end
  | CEm _ => FOk s off [TChunk off []]     (* ghost: pack appends an empty chunk here *)
  end.

(* the field loop of unpack_impl, with its two except arms *)
Fixpoint unpack_fields (cf : lconf) (c : cid) (fs : list cfield) (s : slots) (off ipp : Z) (t : trace) : pres :=
  match fs with
  | [] => POk (VPkt c s) off t
  | f :: r =>
      match unpack_field cf c f s off ipp with
      | FOk s1 o1 t1 => unpack_fields cf c r s1 o1 ipp (t ++ t1)
      | FExn _ => PFail [(off, cf_name f, c)]
      | FFail st => PFail (st ++ [(off, cf_name f, c)])
      | FFuel => PFuel
      end
  end.
End Fields.

Fixpoint unpack_pkt (fuel : nat) (host_big : bool) (ct : ctab) (raw : bytes) (c : cid) (off : Z) : pres :=
  match fuel with
  | O => PFuel
  | S fuel' =>
      match ct_get ct c with
      | None => PFuel
      | Some k => unpack_fields host_big raw (unpack_pkt fuel' host_big ct raw) fuel' (cc_conf k) c (cc_fields k) [] off off []
      end
  end.
