(* Model/WfBits.v -- well-formedness of the bit runs of a compiled field list, as a boolean recomputation: the CBits
   fields come in maximal runs of adjacent fields; within a run the first / last flags, the index of the first member,
   the byte count and every member's (shift, mask) are exactly what Kernel/BitsK.bits_compile assigns to the run's
   widths (a member's width is recovered from its mask: mask = (2^w - 1) << shift).  `describe` only produces such
   lists.  Definitions only. *)
From Coq Require Import ZArith List Bool Lia.
From Bisturi Require Import Base.Bytes Kernel.IntCodec Kernel.Align Kernel.BitsK Kernel.DataK Model.Value Model.Decl.
Import ListNotations.
Open Scope Z_scope.

Definition bits_width (shift mask : Z) : Z := Z.log2 (Z.shiftr mask shift + 1).

(* the leading run of CBits of a field list, and the rest *)
Fixpoint take_run (fs : list cfield) : list cfield * list cfield :=
  match fs with
  | (CBits _ _ _ _ _ _ _ _ as f) :: r => let '(run, rest) := take_run r in (f :: run, rest)
  | _ => ([], fs)
  end.

Definition member_ok (run0 nbytes : Z) (n : nat) (k : nat) (f : cfield) (sm : Z * Z) : bool :=
  match f with
  | CBits _ first last r0 shift mask nb _ =>
      Bool.eqb first (Nat.eqb k 0) && Bool.eqb last (Nat.eqb (S k) n) && (r0 =? run0) && (nb =? nbytes) &&
      (shift =? fst sm) && (mask =? snd sm) && (0 <=? shift) && (1 <=? bits_width shift mask)
  | _ => false
  end.

Definition run_ok (run : list cfield) : bool :=
  match run with
  | [] => true
  | CBits i0 _ _ _ _ _ nbytes _ :: _ =>
      let ws := map (fun f => match f with CBits _ _ _ _ shift mask _ _ => bits_width shift mask | _ => 0 end) run in
      match bits_compile ws with
      | Some (sm, nb) =>
          (nb =? nbytes) && (Z.of_nat (length sm) =? Z.of_nat (length run)) &&
          forallb (fun p => member_ok i0 nbytes (length run) (fst (fst p)) (snd (fst p)) (snd p))
                  (combine (combine (seq 0 (length run)) run) sm)
      | None => false
      end
  | _ => false
  end.

(* walk the list run by run; fuel = its length *)
Fixpoint runs_ok (fuel : nat) (fs : list cfield) : bool :=
  match fuel with
  | O => match fs with [] => true | _ => false end
  | S fuel' =>
      match fs with
      | [] => true
      | CBits _ _ _ _ _ _ _ _ :: _ =>
          let '(run, rest) := take_run fs in
          run_ok run && runs_ok fuel' rest
      | _ :: r => runs_ok fuel' r
      end
  end.
Definition class_bits_ok (k : cclass) : bool := runs_ok (length (cc_fields k)) (cc_fields k).
Definition ct_bits_ok (ct : ctab) : bool := forallb (fun ck => class_bits_ok (snd ck)) ct.
