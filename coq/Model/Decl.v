(* Model/Decl.v -- the declaration language (what a packet class body says) and `describe`: what the
   metaclass (packet_builder.py) and the fields' _describe_yourself / _compile do to it: Move pseudo-fields
   for at/shift/aligned and the class-wide align option, bit runs with their shifts and masks, the
   per-element alignment default.  Definitions only. *)
From Coq Require Import ZArith List Bool Lia.
From Bisturi Require Import Base.Bytes Kernel.IntCodec Kernel.Align Kernel.BitsK Kernel.DataK Model.Value.
Import ListNotations.
Open Scope Z_scope.

(* the argument of at / shift / aligned *)
Inductive marg := MConst (z : Z) | MField (f : fname) | MFun (e : expr).

(* what one element of a field is: a leaf, a nested packet, or whatever a selector picks at run time *)
Inductive elem :=
| ELeafE (l : leaf)
| ERefPkt (c : cid) (proto : slots)      (* Ref(Cls) / Ref(Cls(k=v)): prototype instance, its keyword overrides *)
| ERefSel (sel : expr) (dflt : value).   (* Ref(callable or expression): returns a Field or a Packet *)

Inductive sfield :=
| SElem (e : elem)
| SBits (w : Z) (dflt : value)
| SSeq (e : elem) (count until when : option expr) (dflt : option value) (al : option Z)
| SOpt (e : elem) (when : expr) (dflt : value)
| SEm.

Record fdecl := { fd_move : option (marg * reference * bool); fd_body : sfield }.

Record pclass := {
  pc_endianness : option endian;      (* __bisturi__['endianness'] *)
  pc_align : option Z;                (* __bisturi__['align'] *)
  pc_sbl : option Z;                  (* __bisturi__['search_buffer_length'] *)
  pc_gen_pack : bool; pc_gen_unpack : bool; pc_vectorize : bool;
  pc_fields : list fdecl }.

(* ---- compiled form ---- *)
Inductive cfield :=
| CMove (i : Z) (arg : marg) (r : reference) (al : bool)
| CElem (i : Z) (e : elem)
| CBits (i : Z) (first last : bool) (run0 : Z) (shift mask : Z) (nbytes : Z) (dflt : value)
| CSeq (i : Z) (e : elem) (count until when : option expr) (dflt : value) (al : Z)
| COpt (i : Z) (e : elem) (when : expr) (dflt : value)
| CEm (i : Z).

Definition cf_name (f : cfield) : fname :=
  match f with
  | CMove i _ _ _ => FShift i
  | CElem i _ | CBits i _ _ _ _ _ _ _ | CSeq i _ _ _ _ _ _ | COpt i _ _ _ | CEm i => FN i
  end.

(* the part of __bisturi__ the leaves look at when compiled *)
Record lconf := { lc_endianness : option endian; lc_sbl : option Z }.
Definition empty_conf : lconf := {| lc_endianness := None; lc_sbl := None |}.

Record cclass := { cc_conf : lconf; cc_gen_pack : bool; cc_gen_unpack : bool; cc_vectorize : bool;
                   cc_fields : list cfield }.
Definition ctab := list (cid * cclass).
Fixpoint ct_get (ct : ctab) (c : cid) : option cclass :=
  match ct with
  | [] => None
  | (c', k) :: r => if c =? c' then Some k else ct_get r c
  end.

(* step 1: _describe_yourself -- a Move in front of every positioned field; the class-wide align option
   turns every field without an explicit position into .aligned(align) (reference 'begins') *)
Inductive dfield := DMove (i : Z) (arg : marg) (r : reference) (al : bool) | DBody (i : Z) (b : sfield).

Fixpoint describe_fields (align : option Z) (fs : list fdecl) (i : Z) : list dfield :=
  match fs with
  | [] => []
  | f :: r =>
      let mv := match fd_move f with
                | Some m => Some m
                | None => match align with Some a => Some (MConst a, RBegins, true) | None => None end
                end in
      match mv with
      | Some (arg, rf, al) => [DMove i arg rf al; DBody i (fd_body f)]
      | None => [DBody i (fd_body f)]
      end ++ describe_fields align r (i + 1)
  end.

Definition is_bits (d : dfield) : option (Z * Z) :=
  match d with DBody i (SBits w _) => Some (i, w) | _ => None end.

(* the maximal run of Bits that ends at the head of `before_rev` (members in reverse order) *)
Fixpoint run_back (before_rev : list dfield) : list (Z * Z) :=
  match before_rev with
  | [] => []
  | d :: r => match is_bits d with Some m => m :: run_back r | None => [] end
  end.
(* the run that starts at the head of `after` *)
Fixpoint run_fwd (after : list dfield) : list (Z * Z) :=
  match after with
  | [] => []
  | d :: r => match is_bits d with Some m => m :: run_fwd r | None => [] end
  end.

(* step 2: _compile of every described field, left to right; None = the class cannot be defined
   (Bits.ByteBoundaryError).  `before_rev` holds the already visited described fields, nearest first. *)
Fixpoint compile_fields (align : option Z) (before_rev : list dfield) (ds : list dfield) : option (list cfield) :=
  match ds with
  | [] => Some []
  | d :: rest =>
      let this :=
        match d with
        | DMove i arg rf al => Some (CMove i arg rf al)
        | DBody i (SElem e) => Some (CElem i e)
        | DBody i (SSeq e cnt unt whn dflt al) =>
            Some (CSeq i e cnt unt whn (match dflt with Some v => v | None => VList [] end)
                       (match al with Some a => a | None => match align with Some a => a | None => 1 end end))
        | DBody i (SOpt e whn dflt) => Some (COpt i e whn dflt)
        | DBody i SEm => Some (CEm i)
        | DBody i (SBits w dflt) =>
            let prev := run_back before_rev in          (* members before me, nearest first *)
            let next := run_fwd rest in                 (* members after me *)
            let run := rev prev ++ (i, w) :: next in    (* the whole run in declaration order *)
            match bits_compile (map snd run) with
            | None => None
            | Some (sm, nbytes) =>
                match nth_error sm (length prev) with
                | None => None
                | Some (shift, mask) =>
                    Some (CBits i (match prev with [] => true | _ => false end)
                                  (match next with [] => true | _ => false end)
                                  (match run with (i0, _) :: _ => i0 | [] => i end) shift mask nbytes dflt)
                end
            end
        end in
      match this with
      | None => None
      | Some cf => match compile_fields align (d :: before_rev) rest with
                   | Some l => Some (cf :: l)
                   | None => None
                   end
      end
  end.

Definition describe (p : pclass) : option cclass :=
  match compile_fields (pc_align p) [] (describe_fields (pc_align p) (pc_fields p) 0) with
  | Some l => Some {| cc_conf := {| lc_endianness := pc_endianness p; lc_sbl := pc_sbl p |};
                      cc_gen_pack := pc_gen_pack p; cc_gen_unpack := pc_gen_unpack p;
                      cc_vectorize := pc_vectorize p; cc_fields := l |}
  | None => None
  end.
