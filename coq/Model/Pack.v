(* Model/Pack.v -- the serializing interpreter: Packet.pack_impl (generic field loop) and every field's pack,
   writing into the fragment buffer of Kernel/Frag.v.  Open recursion as in Unpack.v.  Definitions only. *)
From Coq Require Import ZArith List Bool Lia.
From Bisturi Require Import Base.Bytes Kernel.IntCodec Kernel.Align Kernel.BitsK Kernel.DataK Kernel.Frag
                            Model.Value Model.Decl Model.Unpack.
Import ListNotations.
Open Scope Z_scope.

(* outcome of packing one field: new slots (hidden slots are written), new buffer | exception raised with
   the cursor at that moment | PacketError of a nested packet | out of fuel *)
Inductive kres := KOk (s : slots) (fr : frs) | KExn (e : exn) (cur_at : Z) | KFail (st : stack) | KFuel.
Inductive qres := QOk (v : value) (fr : frs) | QFail (st : stack) | QFuel.

(* delimiters remembered by field objects (class-level state written by unpack, read by pack) *)
Definition dstate := cid -> fname -> bytes.

Section Fields.
Variable host_big : bool.
Variable dl : dstate.
Variable rec_pack : cid -> slots -> frs -> qres.      (* pack_impl of a packet value of class cid *)

Definition pctx (s : slots) : ectx := {| e_slots := s; e_offset := None; e_rawlen := None |}.

Definition set_cur (fr : frs) (p : Z) : frs := {| frags := frags fr; begins := begins fr; cur := p |}.

Definition emit (s : slots) (fr : frs) (b : bytes) : kres :=
  match append fr b with
  | Frag.Ok fr' => KOk s fr'
  | _ => KExn GenericError (cur fr)
  end.

(* a leaf serializes the value held in slot `name` *)
Definition pack_leaf (cf : lconf) (c : cid) (name : fname) (l : leaf) (s : slots) (fr : frs) : kres :=
  match slot_get s name with
  | None => KExn AttributeError (cur fr)
  | Some v =>
      match l with
      | LInt n signed fe _ =>
          match as_int v with
          | None => KExn TypeError (cur fr)
          | Some z =>
              match encode n signed (is_bigendian (resolve_endianness fe (lc_endianness cf)) host_big) z with
              | Some b => emit s fr b
              | None => KExn OverflowError (cur fr)
              end
          end
      | LDataSized _ _ _ | LDataEos _ =>
          match v with VBytes b => emit s fr (data_pack b []) | _ => KExn TypeError (cur fr) end
      | LDataMarker m incl _ =>
          match v with VBytes b => emit s fr (data_pack b (if incl then [] else m)) | _ => KExn TypeError (cur fr) end
      | LDataRegex _ incl _ =>
          match v with VBytes b => emit s fr (data_pack b (if incl then [] else dl c name)) | _ => KExn TypeError (cur fr) end
      end
  end.

Definition pack_elem (cf : lconf) (c : cid) (name : fname) (e : elem) (s : slots) (fr : frs) : kres :=
  match e with
  | ELeafE l => pack_leaf cf c name l s fr
  | ERefPkt _ _ =>
      match slot_get s name with
      | Some (VPkt c' ps) =>
          (* the nested object's scratch slots are mutated in place by python; that is not tracked here (it is
             unobservable: Proofs/BitsProofs.bits_pack_all_det, and the element slots are rewritten before use) *)
          match rec_pack c' ps fr with
          | QOk _ fr' => KOk s fr'
          | QFail st => KFail st
          | QFuel => KFuel
          end
      | _ => KExn AttributeError (cur fr)
      end
  | ERefSel sel _ =>
      match slot_get s name with
      | None => KExn AttributeError (cur fr)
      | Some (VPkt c' ps) =>
          match rec_pack c' ps fr with
          | QOk _ fr' => KOk s fr'
          | QFail st => KFail st
          | QFuel => KFuel
          end
      | Some _ =>
          match eval (pctx s) sel with
          | Exn x => KExn x (cur fr)
          | Ok (VLeaf l) => pack_leaf empty_conf c name l s fr
          | Ok _ => KExn NotImplementedError (cur fr)
          end
      end
  end.

Fixpoint pack_seq (cf : lconf) (c : cid) (i : Z) (e : elem) (al : Z) (vs : list value) (s : slots) (fr : frs) : kres :=
  match vs with
  | [] => KOk s fr
  | v :: r =>
      let s1 := slot_set s (FSeqElem i) v in
      match seq_align al (cur fr) with
      | None => KExn ZeroDivisionError (cur fr)
      | Some p =>
          match pack_elem cf c (FSeqElem i) e s1 (set_cur fr p) with
          | KOk s2 fr2 => pack_seq cf c i e al r s2 fr2
          | x => x
          end
      end
  end.

Definition pack_field (cf : lconf) (c : cid) (f : cfield) (s : slots) (fr : frs) (ipp : Z) : kres :=
  match f with
  | CMove i arg rf al =>
      let mv := match arg with
                | MConst z => Ok z
                | MField g => match slot_get s g with
                              | Some v => match as_int v with Some z => Ok z | None => Exn TypeError end
                              | None => Exn AttributeError
                              end
                | MFun e => eval_int (pctx s) e
                end in
      match mv with
      | Exn x => KExn x (cur fr)
      | Ok z => match move_pack al rf z (cur fr) ipp with
                | Some p => KOk s (set_cur fr p)
                | None => KExn GenericError (cur fr)
                end
      end
  | CElem i e => pack_elem cf c (FN i) e s fr
  | CBits i _ last run0 shift mask nbytes _ =>
      match slot_get s (FBitsI run0), slot_get s (FN i) with
      | Some iv0, Some v =>
          match as_int iv0, as_int v with
          | Some iv, Some z =>
              let iv' := bits_put iv z mask shift in
              let s1 := slot_set s (FBitsI run0) (VInt iv') in
              if last then
                match encode nbytes false true iv' with
                | Some b => emit s1 fr b
                | None => KExn OverflowError (cur fr)
                end
              else KOk s1 fr
          | _, _ => KExn TypeError (cur fr)
          end
      | _, _ => KExn AttributeError (cur fr)
      end
  | CSeq i e _ _ _ _ al =>
      match slot_get s (FN i) with
      | Some (VList vs) => pack_seq cf c i e al vs s fr
      | Some _ => KExn TypeError (cur fr)
      | None => KExn AttributeError (cur fr)
      end
  | COpt i e _ _ =>
      match slot_get s (FN i) with
      | None => KExn AttributeError (cur fr)
      | Some VNone => KOk s fr
      | Some v => pack_elem cf c (FOptElem i) e (slot_set s (FOptElem i) v) fr
      end
  | CEm _ => emit s fr []
  end.

Fixpoint pack_fields (cf : lconf) (c : cid) (fs : list cfield) (s : slots) (fr : frs) (ipp : Z) : qres :=
  match fs with
  | [] => QOk (VPkt c s) fr
  | f :: r =>
      match pack_field cf c f s fr ipp with
      | KOk s1 fr1 => pack_fields cf c r s1 fr1 ipp
      | KExn _ at_cur => QFail [(at_cur, cf_name f, c)]
      | KFail st => QFail (st ++ [(match st with (o, _, _) :: _ => o | [] => cur fr end, cf_name f, c)])
      | KFuel => QFuel
      end
  end.
End Fields.

Fixpoint pack_pkt (fuel : nat) (host_big : bool) (dl : dstate) (ct : ctab) (c : cid) (s : slots) (fr : frs) : qres :=
  match fuel with
  | O => QFuel
  | S fuel' =>
      match ct_get ct c with
      | None => QFuel
      | Some k => pack_fields host_big dl (pack_pkt fuel' host_big dl ct) (cc_conf k) c (cc_fields k) s fr (cur fr)
      end
  end.

(* Packet.pack(): a fresh buffer, then tobytes *)
Inductive packed := PBytes (b : bytes) (v : value) | PErr (st : stack) | PNoFuel.
Definition pack_top (fuel : nat) (host_big : bool) (dl : dstate) (ct : ctab) (c : cid) (s : slots) : packed :=
  match pack_pkt fuel host_big dl ct c s empty with
  | QOk v fr => PBytes (tobytes fr) v
  | QFail st => PErr st
  | QFuel => PNoFuel
  end.
