(* Model/Codegen.v -- the code generator (bisturi/codegen.py): how the compiled field list is grouped into
   blocks (struct runs of adjacent fixed-size fields, per-field calls for everything else), what the
   generated unpack_impl / pack_impl do with those blocks, and the packet-level interpreters that use the
   generated or the generic code according to the class options.  Definitions only. *)
From Coq Require Import ZArith List Bool Lia.
From Bisturi Require Import Base.Bytes Kernel.IntCodec Kernel.Align Kernel.BitsK Kernel.DataK Kernel.Frag
                            Model.Value Model.Decl Model.Unpack Model.Pack.
Import ListNotations.
Open Scope Z_scope.

(* a member of a struct run: an integer of 1,2,4,8 bytes or a Data of constant size *)
Inductive smember := SMInt (i : Z) (n : Z) (signed : bool) (big : bool) | SMData (i : Z) (n : Z).
Inductive block := BStruct (big : bool) (ms : list smember) | BLoop (f : cfield).

Definition sm_index (m : smember) : Z := match m with SMInt i _ _ _ | SMData i _ => i end.
Definition sm_size (m : smember) : Z := match m with SMInt _ n _ _ | SMData _ n => n end.
(* Field.is_bigendian: resolved for Int, the constructor default True for Data *)
Definition sm_big (m : smember) : bool := match m with SMInt _ _ _ b => b | SMData _ _ => true end.

(* is_fixed and struct_code of a compiled field *)
Inductive fixity := FStruct (m : smember) | FFixedNoCode | FVariable.
Definition fixity_of (host_big : bool) (cf : lconf) (f : cfield) : fixity :=
  match f with
  | CElem i (ELeafE (LInt n signed fe _)) =>
      if has_struct_code n
      then FStruct (SMInt i n signed (is_bigendian (resolve_endianness fe (lc_endianness cf)) host_big))
      else FFixedNoCode
  | CElem i (ELeafE (LDataSized (ELit (VInt n)) true _)) => FStruct (SMData i n)
  | _ => FVariable
  end.

(* itertools.groupby three times: by is_fixed, then by "has a struct code", then (when vectorize) by
   endianness; without vectorize every struct field is its own run.  Loop blocks are one per field. *)
Fixpoint gen_blocks (host_big : bool) (cf : lconf) (vectorize : bool) (fs : list cfield) (cur : option (bool * list smember)) : list block :=
  let flush := match cur with Some (b, ms) => [BStruct b (rev ms)] | None => [] end in
  match fs with
  | [] => flush
  | f :: r =>
      match fixity_of host_big cf f with
      | FStruct m =>
          match cur with
          | Some (b, ms) =>
              if vectorize && Bool.eqb b (sm_big m) then gen_blocks host_big cf vectorize r (Some (b, m :: ms))
              else flush ++ gen_blocks host_big cf vectorize r (Some (sm_big m, [m]))
          | None => gen_blocks host_big cf vectorize r (Some (sm_big m, [m]))
          end
      | _ => flush ++ BLoop f :: gen_blocks host_big cf vectorize r None
      end
  end.

Definition run_name (ms : list smember) : fname :=
  match ms with
  | [] => FN (-1)
  | [m] => FN (sm_index m)
  | m :: r => FRun (sm_index m) (sm_index (last r m))
  end.
Definition run_size (ms : list smember) : Z := fold_right (fun m a => sm_size m + a) 0 ms.
Definition block_name (b : block) : fname := match b with BStruct _ ms => run_name ms | BLoop f => cf_name f end.

(* StructUnpack(fmt, raw[offset:next_offset]) of a slice of exactly the right size; the ghost trace lists
   each member's bytes at its own position, as the generic loop would *)
Fixpoint struct_unpack (ms : list smember) (chunk : bytes) (off : Z) (s : slots) : slots * trace :=
  match ms with
  | [] => (s, [])
  | m :: r =>
      let n := sm_size m in
      let b := slice chunk 0 n in
      let v := match m with
               | SMInt _ _ signed big => match decode n signed big b with Some x => VInt x | None => VNone end
               | SMData _ _ => VBytes b
               end in
      let '(s', t) := struct_unpack r (slice_from chunk n) (off + n) (slot_set s (FN (sm_index m)) v) in
      (s', TChunk off b :: t)
  end.

(* StructPack(fmt, values...): None = struct.error.  A bytes value for "Ns" is NUL-padded or cut to N. *)
Definition pad_to (n : Z) (b : bytes) : bytes := slice (b ++ repeat 0 (Z.to_nat n)) 0 n.
Fixpoint struct_pack (ms : list smember) (s : slots) : res bytes :=
  match ms with
  | [] => Ok []
  | m :: r =>
      match slot_get s (FN (sm_index m)) with
      | None => Exn AttributeError
      | Some v =>
          do b <- match m with
                  | SMInt _ n signed big =>
                      match as_int v with
                      | Some x => match encode n signed big x with Some b => Ok b | None => Exn StructError end
                      | None => Exn StructError
                      end
                  | SMData _ n => match v with VBytes b => Ok (pad_to n b) | _ => Exn StructError end
                  end;
          do rest <- struct_pack r s;
          Ok (b ++ rest)
      end
  end.

Section Blocks.
Variable host_big : bool.
Variable raw : bytes.
Variable rec_unpack : cid -> Z -> pres.
Variable loop_fuel : nat.

Fixpoint unpack_blocks (cf : lconf) (c : cid) (bs : list block) (s : slots) (off ipp : Z) (t : trace) : pres :=
  match bs with
  | [] => POk (VPkt c s) off t
  | BStruct _ ms :: r =>
      let next_offset := off + run_size ms in
      let chunk := slice raw off next_offset in
      if blen chunk =? run_size ms
      then let '(s1, t1) := struct_unpack ms chunk off s in unpack_blocks cf c r s1 next_offset ipp (t ++ t1)
      else PFail [(off, run_name ms, c)]
  | BLoop f :: r =>
      match unpack_field host_big raw rec_unpack loop_fuel cf c f s off ipp with
      | FOk s1 o1 t1 => unpack_blocks cf c r s1 o1 ipp (t ++ t1)
      | FExn _ => PFail [(off, cf_name f, c)]
      | FFail st => PFail (st ++ [(off, cf_name f, c)])
      | FFuel => PFuel
      end
  end.
End Blocks.

Section PBlocks.
Variable host_big : bool.
Variable dl : dstate.
Variable rec_pack : cid -> slots -> frs -> qres.

Fixpoint pack_blocks (cf : lconf) (c : cid) (bs : list block) (s : slots) (fr : frs) (ipp : Z) : qres :=
  match bs with
  | [] => QOk (VPkt c s) fr
  | BStruct _ ms :: r =>
      match struct_pack ms s with
      | Exn _ => QFail [(cur fr, run_name ms, c)]
      | Ok b =>
          match append fr b with
          | Frag.Ok fr1 => pack_blocks cf c r s fr1 ipp
          | _ => QFail [(cur fr, run_name ms, c)]
          end
      end
  | BLoop f :: r =>
      match pack_field host_big dl rec_pack cf c f s fr ipp with
      | KOk s1 fr1 => pack_blocks cf c r s1 fr1 ipp
      | KExn _ at_cur => QFail [(at_cur, cf_name f, c)]
      | KFail st => QFail (st ++ [(match st with (o, _, _) :: _ => o | [] => cur fr end, cf_name f, c)])
      | KFuel => QFuel
      end
  end.
End PBlocks.

(* the interpreters a class really runs: generated code when the option is on, the generic loop otherwise *)
Fixpoint unpack_any (fuel : nat) (host_big : bool) (ct : ctab) (raw : bytes) (c : cid) (off : Z) : pres :=
  match fuel with
  | O => PFuel
  | S fuel' =>
      match ct_get ct c with
      | None => PFuel
      | Some k =>
          if cc_gen_unpack k
          then unpack_blocks host_big raw (unpack_any fuel' host_big ct raw) fuel' (cc_conf k) c
                             (gen_blocks host_big (cc_conf k) (cc_vectorize k) (cc_fields k) None) [] off off []
          else unpack_fields host_big raw (unpack_any fuel' host_big ct raw) fuel' (cc_conf k) c (cc_fields k) [] off off []
      end
  end.

Fixpoint pack_any (fuel : nat) (host_big : bool) (dl : dstate) (ct : ctab) (c : cid) (s : slots) (fr : frs) : qres :=
  match fuel with
  | O => QFuel
  | S fuel' =>
      match ct_get ct c with
      | None => QFuel
      | Some k =>
          if cc_gen_pack k
          then pack_blocks host_big dl (pack_any fuel' host_big dl ct) (cc_conf k) c
                           (gen_blocks host_big (cc_conf k) (cc_vectorize k) (cc_fields k) None) s fr (cur fr)
          else pack_fields host_big dl (pack_any fuel' host_big dl ct) (cc_conf k) c (cc_fields k) s fr (cur fr)
      end
  end.

Definition pack_any_top (fuel : nat) (host_big : bool) (dl : dstate) (ct : ctab) (c : cid) (s : slots) : packed :=
  match pack_any fuel host_big dl ct c s empty with
  | QOk v fr => PBytes (tobytes fr) v
  | QFail st => PErr st
  | QFuel => PNoFuel
  end.
