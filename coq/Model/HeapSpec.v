(* Model/HeapSpec.v -- the user operations of Model/Heap.v on TREES: every live packet is a value of Model/Value.v and an
   assignment is a functional update.  This is the world all the value-level theorems (C01 .. C12, C14, C17 .. C20) speak
   about.  Proofs/HeapAdequacy.v proves that, as long as the user does not put one object in two places, the object world
   of Model/Heap.v and this one show the same thing after every history: the value model is adequate for live, mutable
   packets.  Definitions only. *)
From Coq Require Import ZArith List Bool Lia.
From Bisturi Require Import Base.Bytes Model.Value Model.Decl Model.Unpack Model.Pack Model.Init Model.Codegen Model.Canon Model.Heap.
Import ListNotations.
Open Scope Z_scope.

Definition fworld := list (Z * value).
Fixpoint fw_get (fw : fworld) (r : Z) : option value :=
  match fw with
  | [] => None
  | (q, v) :: t => if r =? q then Some v else fw_get t r
  end.
Definition fw_set (fw : fworld) (r : Z) (v : value) : fworld := (r, v) :: filter (fun p => negb (fst p =? r)) fw.

(* list item assignment *)
Fixpoint vlist_set (l : list value) (i : nat) (x : value) : option (list value) :=
  match l, i with
  | [], _ => None
  | _ :: r, O => Some (x :: r)
  | a :: r, S k => match vlist_set r k x with Some r' => Some (a :: r') | None => None end
  end.

(* the nesting depth of packets and lists: what read_tree needs as fuel *)
Fixpoint vdepth (v : value) {struct v} : nat :=
  match v with
  | VList l => S ((fix go (l : list value) : nat := match l with [] => O | a :: r => Nat.max (vdepth a) (go r) end) l)
  | VPkt _ s => S ((fix go (s : list (fname * value)) : nat := match s with [] => O | (_, a) :: r => Nat.max (vdepth a) (go r) end) s)
  | _ => O
  end.

(* apply g to the sub-tree at path p *)
Fixpoint tree_upd (v : value) (p : list step) (g : value -> option value) {struct p} : option value :=
  match p with
  | [] => g v
  | st :: r =>
      match v, st with
      | VPkt c s, SField f =>
          match slot_get s f with
          | Some x => match tree_upd x r g with Some x' => Some (VPkt c (slot_set s f x')) | None => None end
          | None => None
          end
      | VList l, SIndex i =>
          if i <? 0 then None
          else match nth_error l (Z.to_nat i) with
               | Some x => match tree_upd x r g with
                           | Some x' => match vlist_set l (Z.to_nat i) x' with Some l' => Some (VList l') | None => None end
                           | None => None
                           end
               | None => None
               end
      | _, _ => None
      end
  end.

(* what the last step of an assignment does to the object it addresses *)
Definition assign_at (last : step) (y : value) (container : value) : option value :=
  match container, last with
  | VPkt c s, SField f => Some (VPkt c (slot_set s f y))
  | VList l, SIndex i => if i <? 0 then None else match vlist_set l (Z.to_nat i) y with Some l' => Some (VList l') | None => None end
  | _, _ => None
  end.
Definition append_at (y : value) (container : value) : option value :=
  match container with VList l => Some (VList (l ++ [y])) | _ => None end.

(* an in-place update keeps the binding where it is *)
Fixpoint fw_set_keep (fw : fworld) (r : Z) (v : value) : fworld :=
  match fw with
  | [] => []
  | (q, x) :: t => if r =? q then (q, v) :: t else (q, x) :: fw_set_keep t r v
  end.

Definition is_object (v : value) : bool := match v with VPkt _ _ | VList _ => true | _ => false end.

(* one operation on the functional world; an object taken from a live packet (SrcObj) is outside this world *)
Definition f_step (host : bool) (ct : ctab) (fw : fworld) (o : wop) : option fworld :=
  match o with
  | WNew r v =>
      match complete FUEL ct v with
      | Some (VPkt c s) => Some (fw_set fw r (VPkt c s))
      | _ => None
      end
  | WParse r c raw off =>
      match unpack_any FUEL host ct raw c off with
      | POk v _ _ => if is_object v then Some (fw_set fw r v) else None
      | _ => None
      end
  | WReparse r r0 =>
      match fw_get fw r0 with
      | Some (VPkt c s) =>
          if Nat.leb (vdepth (VPkt c s)) RFUEL then
            match pack_any_top FUEL host no_delims ct c s with
            | PBytes b _ =>
                match unpack_any FUEL host ct b c 0 with
                | POk v _ _ => if is_object v then Some (fw_set fw r v) else None
                | _ => None
                end
            | _ => None
            end
          else None
      | _ => None
      end
  | WSet r p last (SrcLit v) =>
      match fw_get fw r, complete FUEL ct v with
      | Some t, Some y =>
          match tree_upd t p (fun cont => if is_object cont then assign_at last y cont else None) with
          | Some t' => Some (fw_set_keep fw r t')
          | None => None
          end
      | _, _ => None
      end
  | WAppend r p (SrcLit v) =>
      match fw_get fw r, complete FUEL ct v with
      | Some t, Some y =>
          match tree_upd t p (fun cont => append_at y cont) with
          | Some t' => Some (fw_set_keep fw r t')
          | None => None
          end
      | _, _ => None
      end
  | WSet _ _ _ (SrcObj _ _) | WAppend _ _ (SrcObj _ _) => None
  | WPack r =>
      match fw_get fw r with
      | Some (VPkt c s) =>
          if Nat.leb (vdepth (VPkt c s)) RFUEL
          then match pack_any_top FUEL host no_delims ct c s with PBytes _ _ => Some fw | _ => None end
          else None
      | _ => None
      end
  end.

Definition f_run1 (host : bool) (ct : ctab) (fw : fworld) (o : wop) : fworld :=
  match f_step host ct fw o with Some fw' => fw' | None => fw end.
