#!/usr/bin/env python3
"""Entry point of every check:   python3 check.py <Cxx> [--tier quick|thorough]   |   python3 check.py --replay <path>

For property P:
  1. Tie A: regenerate coq/Gen/*.v from /repo's working tree, rebuild P's bridge lemmas and theorems (make);
  2. Tie B: run the Coq model (vm_compute) and the implementation on the same generated cases and compare;
  3. oracle: state the property directly on the implementation for those cases (and on the cases where 1 or 2 broke);
  4. verdict: exit 0 when every obligation checks, the correspondence has no disagreement and the oracle finds nothing
     beyond the committed known findings (each printed as KNOWN-FINDING); otherwise exit 1 with
     `VIOLATION property=P replay=<path>` (ending in no-failing-input-found when only an obligation or the
     correspondence broke and no concrete failing input could be exhibited);
  5. evidence/<P>.json is rewritten."""
import sys, os, json, time, random, importlib, traceback, re

sys.path.insert(0, os.path.join(os.path.dirname(os.path.abspath(__file__)), 'harness'))
from common import *

WHOLE_PACKET_KERNELS = ['G1_frag', 'G3_move', 'G4_seq', 'G5_bits', 'G6_int', 'G8_data', 'G9_errors', 'G11_codegen', 'G13_deferred', 'G13b_deferred_ops',
                        'G15_init', 'G15b_init_structural', 'G16_ref', 'G16b_optional', 'G16c_prototype', 'G17_builder', 'G18_conditions',
                        'G19_field_ctor', 'G20a_frag_misc', 'G20b_packet_misc']
WHOLE_PACKET_TARGETS = ['Bridge/FragBridge.vo', 'Bridge/MoveBridge.vo', 'Bridge/BitsBridge.vo', 'Bridge/IntBridge.vo', 'Bridge/DataBridge.vo',
                        'Bridge/ErrorsBridge.vo', 'Bridge/CodegenBridge.vo', 'Bridge/DeferredBridge.vo', 'Bridge/InitBridge.vo', 'Bridge/RefBridge.vo',
                        'Bridge/PlumbingBridge.vo', 'Bridge/MiscFragBridge.vo', 'Bridge/MiscPacketBridge.vo']


def count_lemmas(vfile):
    try:
        return len(re.findall(r'(?m)^\s*(?:Lemma|Theorem|Corollary|Example|Fact)\s', open(os.path.join(COQ, vfile)).read()))
    except FileNotFoundError:
        return 0


def main():
    args = sys.argv[1:]
    if args and args[0] == '--replay':
        return do_replay(args[1])
    pid = args[0]
    tier = os.environ.get('VERIF_TIER', 'quick')
    if '--tier' in args:
        tier = args[args.index('--tier') + 1]
    seed = int(os.environ.get('VERIF_SEED', '20261001'))
    rng = random.Random(seed * 1000003 + int(pid[1:]))
    t0 = time.time()
    mod = importlib.import_module('props.' + pid)
    problems = []       # broken obligations / correspondence (not by themselves concrete failures)
    failures = []       # concrete failing inputs on the implementation

    # ---- 1. Tie A + theorems
    # checks whose correspondence goes through Model/Canon.v also re-check the comparator lemmas (Proofs/CanonProofs.v)
    kernels, prop_targets = list(mod.KERNELS), list(mod.TARGETS)
    if getattr(mod, 'WHOLE_PACKET', False):
        # a property about whole packets over random declarations depends on all of the pack / unpack machinery: every kernel of it is
        # part of this property's Tie A (seeded changes outside a narrower list had been missed outright: S81, S85, S88, S90)
        kernels = list(dict.fromkeys(kernels + WHOLE_PACKET_KERNELS))
        prop_targets = list(dict.fromkeys(prop_targets + WHOLE_PACKET_TARGETS))
    targets = prop_targets + (['Proofs/CanonProofs.vo'] if hasattr(mod, 'pktcases') else [])
    build = regen_and_build(targets)
    gen_bad = {k: r['error'] for k, r in build['gen'].items() if k in kernels and not r['ok']}
    for k, e in gen_bad.items():
        problems.append(dict(kind='translator', kernel=k, what=f"Tie A: kernel {k} no longer matches its template: {e}"))
    if not build['ok']:
        problems.append(dict(kind='proof', files=build['failed_files'] or build['missing'],
                             what="Coq obligations that no longer check: " + ', '.join(build['failed_files'] or build['missing']),
                             log=build['log_tail'][-1500:]))
    theorems, pa_raw, pa_rc = ([], '', 1)
    if os.path.exists(os.path.join(COQ, mod.PROP_FILE)) and os.path.exists(os.path.join(COQ, mod.PROP_FILE + 'o')):
        theorems, pa_raw, pa_rc = print_assumptions(mod.PROP_FILE)
        for name, closed, text in theorems:
            if not closed and not text.startswith('Section Variables'):
                problems.append(dict(kind='assumptions', what=f"theorem {name} is not closed under the global context: {text}"))
    bridge_files = [t[:-1] for t in prop_targets if t.startswith('Bridge/')]
    n_bridge = sum(count_lemmas(b) for b in bridge_files)
    obligations = len(theorems) + n_bridge
    discharged = 0
    if build['ok'] and not gen_bad:
        discharged = sum(1 for _, closed, text in theorems if closed or text.startswith('Section Variables')) + n_bridge

    # ---- 2+3. Tie B and oracle
    try:
        r = mod.run(tier, seed, rng)
    except ImplCrash as e:
        r = dict(evaluations=0, distinct_nontrivial=0, rule='', samples=[], failures=[], disagreements=[])
        problems.append(dict(kind='harness', what='the implementation driver crashed: ' + str(e)[-1500:]))
        if e.inside_implementation():
            # raised from inside the bisturi package, outside every outcome the driver records (no such raise exists on the unchanged
            # tree): the declarations / first input of the driver are a concrete failing input; the payload is kept for the replay
            d = os.path.join(VERIF, 'replays')
            os.makedirs(d, exist_ok=True)
            ppath = os.path.join(d, f'{pid}_driver_payload.json')
            json.dump(e.payload, open(ppath, 'w'), default=str)
            failures.append(dict(kind='oracle', sig='raises-outside-contract', driver=e.script, payload=ppath,
                                 what='the implementation raises where the property requires a value or a PacketError (declaring the '
                                      "driver's classes or running its first input): " + str(e)[-1200:]))
    except RuntimeError as e:
        r = dict(evaluations=0, distinct_nontrivial=0, rule='', samples=[], failures=[], disagreements=[])
        problems.append(dict(kind='model', what='the model could not be evaluated: ' + str(e)[-1500:]))
    failures += r.get('failures', [])
    for d in r.get('disagreements', []):
        problems.append(d)
        case = d.get('case') if isinstance(d.get('case'), dict) else {}
        if case.get('kind') == 'bad-end':
            failures.append(dict(kind='oracle', sig='end-offset', classes=d.get('classes', ''), case=case,
                                 what=f"class K{case.get('c')}, input {case.get('raw')} at {case.get('offset')}: {d['what']} "
                                      "(positions are integers: parsing continues right after a packet, errors name an offset)"))
        if case.get('kind') == 'defined' and case.get('outcome') not in (None, 'ok'):
            # the model accepts the declaration (and so does the unchanged implementation): a class that cannot even be declared
            # fails the property on every input; the class source is the failing input
            failures.append(dict(kind='oracle', sig='class-definition', classes=d.get('classes', ''),
                                 what=f"declaring these (well-formed) classes raises {case.get('outcome')}"))

    # ---- 4. verdict
    known = known_findings(pid)
    lines = []
    new_failures = []
    seen_known = set()
    for f in failures:
        k = next((e for e in known if re.search(e['signature'], f.get('sig', f.get('what', '')))), None)
        if k:
            seen_known.add(k['id'])
        else:
            new_failures.append(f)
    for e in known:
        if e['id'] in seen_known:
            lines.append(f"KNOWN-FINDING: property={pid} {e['id']} {e['what']}")
    rc = 0
    if new_failures:
        f = new_failures[0]
        path = write_replay(pid, dict(property=pid, kind='failing-input', failure=f, others=len(new_failures) - 1,
                                      broken_obligations=[p['what'] for p in problems][:5]))
        lines.append(f"VIOLATION property={pid} replay={path}")
        rc = 1
    elif problems:
        path = write_replay(pid, dict(property=pid, kind='broken-obligation',
                                      broken=[{k: v for k, v in p.items()} for p in problems][:10],
                                      note='no concrete failing input was found by the oracle on the explored scope'))
        lines.append(f"VIOLATION property={pid} replay={path} no-failing-input-found")
        rc = 1

    # ---- 5. evidence
    cov = dict(
        obligations=obligations, discharged=discharged,
        checker_cmd=f"cd {COQ} && python3 ../harness/pygen.py && make -k -j{NPROC} {' '.join(prop_targets)} && coqc -Q . Bisturi {mod.PROP_FILE}",
        trusted_base=TRUSTED_BASE + getattr(mod, 'TRUSTED_EXTRA', []),
        theorems=[dict(name=n, closed=c, assumptions=t) for n, c, t in theorems],
        bridge_lemmas=n_bridge, kernels={k: build['gen'][k] for k in kernels if k in build['gen']},
        evaluations=r.get('evaluations', 0), distinct_nontrivial=r.get('distinct_nontrivial', 0),
        rule=r.get('rule', ''), samples=r.get('samples', [])[:6],
        exhaustive=bool(r.get('exhaustive', False)),
        traces_validated_against_impl=r.get('evaluations', 0),
        correspondence_disagreements=len(r.get('disagreements', [])),
        oracle_failures=len(failures), known_findings_seen=sorted(seen_known),
        broken_obligations=[p['what'][:300] for p in problems],
        distribution=r.get('distribution', {}), coq_build_s=round(build['wall_s'], 1),
        explanation=getattr(mod, 'EXPLANATION', ''),
    )
    for k, v in r.items():
        if k not in cov and k not in ('failures', 'disagreements', 'samples'):
            cov[k] = v
    write_evidence(pid, tier, seed, cov, time.time() - t0, len(new_failures) + (1 if (problems and not new_failures) else 0),
                   getattr(mod, 'ASSUMPTIONS', []))
    for l in lines:
        print(l)
    print(f"[{pid}] tier={tier} obligations={discharged}/{obligations} cases={cov['evaluations']} "
          f"disagreements={cov['correspondence_disagreements']} oracle_failures={len(failures)} "
          f"known={sorted(seen_known)} wall={time.time() - t0:.1f}s -> exit {rc}")
    return rc


def do_replay(path):
    obj = json.load(open(path))
    pid = obj['property']
    mod = importlib.import_module('props.' + pid)
    if obj.get('kind') != 'failing-input':
        print(json.dumps(obj, indent=1)[:4000])
        print("this replay names broken obligations; re-run the check to re-evaluate them")
        return 0
    if obj['failure'].get('sig') == 'raises-outside-contract':
        try:
            run_impl(obj['failure']['driver'], json.load(open(obj['failure']['payload'])))
            still, info = False, dict(note='the driver runs to completion')
        except ImplCrash as e:
            still, info = True, dict(trace=str(e)[-2000:])
    elif obj['failure'].get('sig') == 'end-offset':
        still, info = True, dict(note='re-run the check: the failing class and input are in the replay', failure=obj['failure'])
    elif obj['failure'].get('sig') == 'class-definition':
        try:
            run_impl(os.path.join(VERIF, 'harness', 'impl_exec.py'), dict(src=obj['failure']['classes']))
            still, info = False, dict(note='the classes can be declared')
        except ImplCrash as e:
            still, info = True, dict(trace=str(e)[-2000:])
    else:
        still, info = mod.replay(obj['failure'])
    print(json.dumps(info, indent=1, default=str)[:4000])
    print('STILL FAILING' if still else 'no longer fails')
    return 1 if still else 0


if __name__ == '__main__':
    try:
        sys.exit(main())
    except SystemExit:
        raise
    except BaseException:
        traceback.print_exc()
        pid = sys.argv[1] if len(sys.argv) > 1 else '?'
        path = write_replay(pid, dict(property=pid, kind='harness-crash', trace=traceback.format_exc()[-3000:]))
        print(f"VIOLATION property={pid} replay={path} no-failing-input-found")
        sys.exit(1)
