from common import *
import patches
seed = int(sys.argv[1]) if len(sys.argv) > 1 else 1
NCLS = int(sys.argv[2]) if len(sys.argv) > 2 else 150
rnd = random.Random(seed)
SUBS = '''
class SubI(Packet):
    x = Int(1)
    y = Int(2, endianness='little')
class SubL(Packet):
    l = Int(1)
    v = Data(l)
class SubA(Packet):
    d = Data(2).at(1)
class SubB(Packet):
    f = Bits(3)
    g = Bits(5)
    h = Int(1).aligned(2, 'innermost-pkt')
'''
def gen_class(name):
    fields = []; ints = []; feats = set()
    n = rnd.randint(2, 6)
    conf = {}
    if rnd.random() < 0.5: conf.update(NOGEN)
    if rnd.random() < 0.15: conf['endianness'] = 'little'
    if rnd.random() < 0.12: conf['align'] = 2; feats.add('begins')
    if rnd.random() < 0.15: conf['search_buffer_length'] = rnd.choice([0, 3, 8])
    if rnd.random() < 0.2: conf['vectorize'] = False
    i = 0
    while i < n:
        fname = 'f%d' % i
        r = rnd.random(); pos = ''
        pr = rnd.random()
        allow_pos = True
        if r < 0.25:
            w = rnd.choice([1,1,2,3]); s = rnd.random() < 0.2
            e = rnd.choice(['', '', ", endianness='little'", ", endianness='network'"])
            expr = 'Int(%d%s%s)' % (w, ', signed=True' if s else '', e)
            if not s: ints.append(fname)
        elif r < 0.45:
            k = rnd.random()
            if k < 0.25: expr = 'Data(%d)' % rnd.randint(0,3)
            elif k < 0.45 and ints: expr = 'Data(%s)' % rnd.choice(ints)
            elif k < 0.55 and ints: expr = 'Data(%s * 2)' % rnd.choice(ints)
            elif k < 0.65 and ints: expr = 'Data(lambda pkt, **k: pkt.%s + 1)' % rnd.choice(ints)
            elif k < 0.85: expr = 'Data(until_marker=%r, include_delimiter=%r)' % (rnd.choice([b'\x00', b'ab', b'\x01\x01']), rnd.random()<0.4)
            elif i == n-1: expr = 'Data(until_marker=EOS)'; feats.add('eos')
            else: expr = 'Data(1)'
        elif r < 0.55:
            comp = rnd.choice([[8],[4,4],[1,7],[3,5],[12,4],[1,2,5],[6,10],[8,8,8],[4,12,8]])
            for j, w in enumerate(comp):
                fields.append(('f%d_%d' % (i,j), 'Bits(%d)' % w))
                if w <= 3: ints.append('f%d_%d' % (i,j))
            i += 1; continue
        elif r < 0.67:
            expr = 'Ref(%s)' % rnd.choice(['SubI','SubL','SubA','SubB'])
        elif r < 0.85:
            el = rnd.choice(['Int(1)', 'Int(2)', 'Ref(SubL)', 'Ref(SubI)', 'Data(1)', 'Ref(SubA)'])
            k = rnd.random(); args = []
            if k < 0.3: args.append('%d' % rnd.randint(0,3))
            elif k < 0.6 and ints: args.append(rnd.choice(ints))
            elif k < 0.7 and ints: args.append('%s + 1' % rnd.choice(ints))
            elif el in ('Int(1)','Int(2)'): args.append('until=lambda pkt, **k: pkt.%s[-1] == 0' % fname)
            elif el == 'Ref(SubL)': args.append('until=lambda pkt, **k: pkt.%s[-1].l == 0' % fname)
            else: args.append('2')
            if ints and rnd.random() < 0.25: args.append('when=%s' % rnd.choice(ints))
            if rnd.random() < 0.2: args.append('aligned=%d' % rnd.choice([2,4])); feats.add('begins')
            expr = '%s.repeated(%s)' % (el, ', '.join(args))
        elif r < 0.93 and ints:
            el = rnd.choice(['Int(1)', 'Int(2)', 'Data(2)', 'Ref(SubI)'])
            c = rnd.choice(['%s', '%s == 1', '%s & 1', '(%s > 1) & (%s < 4)'])
            f0 = rnd.choice(ints)
            expr = '%s.when(%s)' % (el, c.replace('%s', f0))
        else:
            expr = 'Em()'
        if allow_pos and pr < 0.18:
            k = rnd.random()
            if k < 0.3: pos = '.at(%d)' % rnd.randint(0, 8)
            elif k < 0.4 and [x for x in ints if x != fname]: pos = '.at(%s)' % rnd.choice([x for x in ints if x != fname])
            elif k < 0.55: pos = '.shift(%d)' % rnd.choice([1,2])
            elif k < 0.8:
                ref = rnd.choice(['begins','innermost-pkt','current-offset'])
                if ref == 'begins': feats.add('begins')
                pos = '.aligned(%d, %r)' % (rnd.choice([2,4]), ref)
            else: pos = ".at(%d, 'begins')" % rnd.randint(0,6); feats.add('begins')
        fields.append((fname, expr + pos))
        i += 1
    return cls_src(name, fields, conf), feats
def getv(x):
    if isinstance(x, Packet):
        return (type(x).__name__, tuple((n, getv(getattr(x, n, 'UNSET'))) for n, f, _, _ in x.get_fields()))
    if isinstance(x, list): return [getv(e) for e in x]
    return x
specs = []; mods = {}
import traceback
for c in range(NCLS):
    s, feats = gen_class('H%d' % c)
    try:
        mods['H%d' % c] = defmod(SUBS + s)
        specs.append(('H%d' % c, feats, s))
    except Exception as e:
        if 'ByteBoundary' in type(e).__name__: continue
        print('DEFINE FAIL', type(e).__name__, e, '\n' + s)
_seen=set()
def report(kind, name, info, csrc):
    if (kind,name) in _seen: return
    _seen.add((kind,name)); print(kind, name, info); print(csrc)
stats = dict(parsed=0, tried=0, c01=0, c14=0, c04=0, rt=0, perr_pack=0)
def rb(L):
    return bytes(rnd.choice([0,0,1,1,2,3,4,97,98,46,255, rnd.randrange(256)]) for _ in range(L))
for name, feats, csrc in specs:
    C = getattr(mods[name], name)
    for t in range(60):
        raw = rb(rnd.randint(0, 24)); off = rnd.choice([0,0,0,1,2,3])
        stats['tried'] += 1
        r = run(lambda: C.unpack(raw, off))
        if r[0] == 'exc': print('NONPERR-UNPACK', name, raw, off, r, '\n'+csrc); continue
        if r[0] != 'ok': continue
        p = r[1]; stats['parsed'] += 1
        v = getv(p)
        q = run(lambda: p.pack())
        if q[0] == 'exc': print('NONPERR-PACK', name, raw, off, q, '\n'+csrc); continue
        if q[0] == 'perr': stats['perr_pack'] += 1; continue
        out = q[1]
        begins_hazard = ('begins' in feats) and off != 0
        # C01 (weak form): out byte equals raw at same relative position or is filler; not longer than remaining input
        okc01 = all(o == 46 for o in out[max(0, len(raw)-off):]) and all(out[i] == raw[off+i] or out[i] == 46 for i in range(min(len(out), max(0,len(raw)-off))))
        if not okc01 and not begins_hazard:
            stats['c01'] += 1; report('C01', name, (raw, off, out), csrc)
        # re-parse of output gives same values
        r2 = run(lambda: C.unpack(out))
        if not begins_hazard and (r2[0] != 'ok' or getv(r2[1]) != v):
            stats['rt'] += 1; report('RT', name, (raw, off, out, r2[:2]), csrc)
        # C14 prefix / suffix
        if 'begins' not in feats:
            pre = rb(rnd.randint(1,4))
            r3 = run(lambda: C.unpack(pre + raw[off:], len(pre)))
            if r3[0] != 'ok' or getv(r3[1]) != v:
                stats['c14'] += 1; report('C14pre', name, (raw, off, pre, r3[:2]), csrc)
            if 'eos' not in feats and off == 0:
                post = rb(rnd.randint(1,4))
                r4 = run(lambda: C.unpack(out + post))
                if (r4[0] != 'ok' or getv(r4[1]) != v):
                    stats['c14'] += 1; report('C14post', name, (raw, out, post, r4[:2]), csrc)
print('huntE seed', seed, stats)
cleanup()
