from common import *
import patches
# C03: same declaration under all 16 option combinations must agree on unpack values/end, pack bytes, and failure sets
seed = int(sys.argv[1]) if len(sys.argv) > 1 else 1
NDECL = int(sys.argv[2]) if len(sys.argv) > 2 else 40
rnd = random.Random(seed)
SUBS = '''
class SubI(Packet):
    x = Int(1)
    y = Int(2, endianness='little')
class SubL(Packet):
    l = Int(1)
    v = Data(l)
'''
def gen_fields():
    fields = []; ints = []
    n = rnd.randint(2, 7)
    for i in range(n):
        fname = 'f%d' % i; r = rnd.random()
        if r < 0.45:
            w = rnd.choice([1,2,4,8,3,5]); s = rnd.random() < 0.3
            e = rnd.choice(['', '', ", endianness='little'", ", endianness='network'", ", endianness='local'"])
            expr = 'Int(%d%s%s)' % (w, ', signed=True' if s else '', e)
            if not s and w <= 2: ints.append(fname)
        elif r < 0.65: expr = 'Data(%d)' % rnd.randint(0,4)
        elif r < 0.72 and ints: expr = 'Data(%s)' % rnd.choice(ints)
        elif r < 0.78: expr = "Data(until_marker=b'\\x00')"
        elif r < 0.84: expr = 'Ref(%s)' % rnd.choice(['SubI','SubL'])
        elif r < 0.92 and ints: expr = 'Int(%d).repeated(%s)' % (rnd.choice([1,2,3]), rnd.choice(ints))
        elif ints: expr = 'Int(2).when(%s)' % rnd.choice(ints)
        else: expr = 'Int(1)'
        if rnd.random() < 0.08: expr += '.aligned(2)'
        fields.append((fname, expr))
    return fields
def getv(x):
    if isinstance(x, Packet):
        return (tuple((n, getv(getattr(x, n, 'UNSET'))) for n, f, _, _ in x.get_fields()))
    if isinstance(x, list): return [getv(e) for e in x]
    return x
combos = list(itertools.product([False, True], repeat=4))
bad = 0; tot = 0; fails = 0
for d in range(NDECL):
    fields = gen_fields()
    cdef = rnd.choice([None, None, 'little'])
    src = SUBS
    for ci, (gp, gu, vec, ann) in enumerate(combos):
        conf = {'generate_for_pack': gp, 'generate_for_unpack': gu, 'vectorize': vec, 'annotate': ann}
        if cdef: conf['endianness'] = cdef
        src += cls_src('D%d_%d' % (d, ci), fields, conf)
    try: m = defmod(src)
    except Exception as e: print('DEFINE FAIL', type(e).__name__, e, fields); continue
    Cs = [getattr(m, 'D%d_%d' % (d, ci)) for ci in range(16)]
    def rb(L): return bytes(rnd.choice([0,0,1,1,2,3,128,255, rnd.randrange(256)]) for _ in range(L))
    for t in range(40):
        raw = rb(rnd.randint(0, 30)); off = rnd.choice([0,0,1])
        res = []
        for C in Cs:
            r = run(lambda: C.unpack(raw, off))
            if r[0] == 'ok': res.append(('ok', getv(r[1])))
            elif r[0] == 'perr': res.append(('perr',))
            else: res.append(r)
        tot += 1
        if any(x != res[0] for x in res):
            bad += 1; print('UNPACK-DIFF', fields, raw, off, [x[0] for x in res]); break
        if res[0][0] != 'ok': fails += 1; continue
        # pack: same values, then mutated values (out of range etc.)
        pk = []
        for C in Cs:
            p = C.unpack(raw, off)
            pk.append(run(lambda: p.pack()))
        if any((x[0], x[1] if x[0]=='ok' else None) != (pk[0][0], pk[0][1] if pk[0][0]=='ok' else None) for x in pk):
            bad += 1; print('PACK-DIFF', fields, raw, off, pk[:3]); break
        # mutate one int field out of range / negative / wrong type
        names = [n for n, e in fields if e.startswith('Int(') and 'repeated' not in e and 'when' not in e]
        if names:
            nm = rnd.choice(names); val = rnd.choice([-1, 256, 65536, 2**31, 2**64, -2**15, 'x', None, 1.5, 0, 1])
            pk = []
            for C in Cs:
                p = C.unpack(raw, off); setattr(p, nm, val)
                q = run(lambda: p.pack())
                pk.append((q[0], q[1] if q[0]=='ok' else None))
            if any(x != pk[0] for x in pk):
                bad += 1; print('PACKMUT-DIFF', fields, raw, off, nm, val, pk); break
print('huntF seed', seed, 'tot', tot, 'bad', bad, 'failing-inputs', fails)
cleanup()
