from common import *
import patches, copy
seed = int(sys.argv[1]) if len(sys.argv) > 1 else 1
rnd = random.Random(seed)
src = '''
class Sub(Packet):
    x = Int(1, default=7)
    l = Int(1).repeated(2, default=[1, 2])
class DN(Packet):
    n = Int(1)
    d = Data(n)
class W(Packet):
    t = Int(1, default=1)
    b1 = Bits(3); b2 = Bits(5, default=9)
    r = Ref(Sub(x=3))
    r2 = Ref(Sub)
    s = Int(1).repeated(t)
    sp = Ref(Sub).repeated(1, default=[Sub(x=5)])
    o = Ref(Sub).when(t == 2, default=Sub(x=8))
    sel = Ref(t.chooses({1: Int(2), 2: Data(2)}), default=5)
    dm = Data(until_marker=b'\\x00')
class WG(Packet):
    __bisturi__ = {'generate_for_pack': False, 'generate_for_unpack': False}
    t = Int(1, default=1)
    r = Ref(Sub(x=3))
    s = Int(1).repeated(t)
    sp = Ref(Sub).repeated(1, default=[Sub(x=5)])
    o = Ref(Sub).when(t == 2, default=Sub(x=8))
'''
m = defmod(src)
def reach(x, acc=None):
    """ids of mutable sub-objects reachable from packet x"""
    if acc is None: acc = {}
    if isinstance(x, Packet):
        if id(x) in acc: return acc
        acc[id(x)] = x
        for n, f, _, _ in x.get_fields():
            reach(getattr(x, n, None), acc)
    elif isinstance(x, list):
        if id(x) in acc: return acc
        acc[id(x)] = x
        for e in x: reach(e, acc)
    return acc
def snap(x):
    if isinstance(x, Packet): return (type(x).__name__, tuple((n, snap(getattr(x, n, 'UNSET'))) for n, f, _, _ in x.get_fields()))
    if isinstance(x, list): return [snap(e) for e in x]
    return x
RAWS = {'W': [b'\x01\x4a\x03\x01\x02\x07\x05\x06\x09\x05\x01\x02\x00\x05zz\x00', b'\x02\x4a\x03\x01\x02\x07\x05\x06\x09\x08\x05\x01\x02\x01\x01\x01AB\x00',
              ],
        'WG': [b'\x01\x03\x01\x02\x09\x05\x01\x02', b'\x02\x03\x01\x02\x09\x08\x05\x01\x02\x06\x01\x02']}
bad = 0; tot = 0
for cname in ('W', 'WG'):
    C = getattr(m, cname)
    for raw in RAWS[cname]:
        r = run(lambda: C.unpack(raw))
        if r[0] != 'ok': print('RAW does not parse', cname, raw, r)
    for t in range(3000):
        pkts = []
        L = rnd.randint(2, 7)
        for step in range(L):
            op = rnd.choice(['new', 'new', 'unpack', 'unpack', 'set', 'setsub', 'append', 'pack', 'pack'])
            before = [(snap(p), run(lambda: p.pack())[:2]) for p in pkts]
            target = None
            if op == 'new' or not pkts:
                pkts.append(C()); target = len(pkts) - 1
            elif op == 'unpack':
                pkts.append(C.unpack(rnd.choice(RAWS[cname]))); target = len(pkts) - 1
            else:
                target = rnd.randrange(len(pkts)); p = pkts[target]
                if op == 'set': p.t = rnd.choice([0, 1, 2, 3])
                elif op == 'setsub': p.r.x = rnd.randrange(256)
                elif op == 'append': p.s.append(rnd.randrange(256)); (p.sp[0].l.append(4) if p.sp else None)
                elif op == 'pack':
                    a = run(lambda: p.pack()); s1 = snap(p); b = run(lambda: p.pack())
                    if a[:2] != b[:2] or snap(p) != s1: bad += 1; print('IMPURE PACK', cname, a, b)
            tot += 1
            for j, p in enumerate(pkts[:len(before)]):
                if j == target: continue
                now = (snap(p), run(lambda: p.pack())[:2])
                if now != before[j]:
                    bad += 1; print('INTERFERENCE', cname, op, 'on', target, 'changed', j, before[j][0], '->', now[0]); break
            # aliasing
            ids = {}
            for j, p in enumerate(pkts):
                for i_, o_ in reach(p).items():
                    if i_ in ids and ids[i_] != j:
                        bad += 1; print('ALIAS', cname, 'pkts', ids[i_], j, type(o_).__name__, snap(o_)); break
                    ids[i_] = j
            if bad > 6: break
        if bad > 6: break
print('huntI', 'steps', tot, 'bad', bad)
cleanup()
