from common import *
import patches
from bisturi.pattern_matching import Any, anything_like, filter as pfilter
import bisturi.field as BF
# emulate planned fixes D5 (Any length) and D6 (group regex marker) to see what else is there
_orig = BF.Data.pack_regexp
def pack_regexp(self, pkt, fragments, **k):
    value = getattr(pkt, self.field_name)
    if isinstance(value, Any) and self.byte_count is not None and isinstance(self.byte_count, BF.Field) \
       and isinstance(getattr(pkt, self.byte_count.field_name), Any):
        custom = value.regexp.pattern if value.regexp is not None else b".*"
        fragments.append(custom, is_literal=False); return fragments
    if isinstance(value, Any) and self.byte_count is None and not isinstance(self.until_marker, bytes):
        custom = value.regexp.pattern if value.regexp is not None else b".*"
        fragments.append(custom + b'(?:' + self.until_marker.pattern + b')', is_literal=False); return fragments
    return _orig(self, pkt, fragments, **k)
BF.Data.pack_regexp = pack_regexp
seed = int(sys.argv[1]) if len(sys.argv) > 1 else 1
rnd = random.Random(seed)
META = [ord(c) for c in '.^$*+?{}[]\\|()-\n'] + [0, 255, 97]
def gen_fields():
    fields = []; ints = []
    n = rnd.randint(1, 5); i = 0
    while i < n:
        fname = 'f%d' % i; r = rnd.random()
        if r < 0.3:
            w = rnd.choice([1,2,3]); expr = 'Int(%d%s)' % (w, rnd.choice(['', ', signed=True', ", endianness='little'"]))
            if 'signed' not in expr and w == 1: ints.append(fname)
        elif r < 0.5:
            comp = rnd.choice([[8],[4,4],[1,7],[3,5],[12,4],[1,2,5],[6,10],[2,3,3]])
            for j, w in enumerate(comp): fields.append(('f%d_%d' % (i,j), 'Bits(%d)' % w))
            i += 1; continue
        else:
            k = rnd.random()
            if k < 0.25: expr = 'Data(%d)' % rnd.randint(0,3)
            elif k < 0.4 and ints: expr = 'Data(%s)' % rnd.choice(ints)
            elif k < 0.5 and ints: expr = 'Data(%s * 2)' % rnd.choice(ints)
            elif k < 0.6 and ints: expr = 'Data(lambda pkt, **k: pkt.%s + 1)' % rnd.choice(ints)
            elif k < 0.8: expr = 'Data(until_marker=%r, include_delimiter=%r)' % (rnd.choice([b'\x00', b'.', b'a|', b'\n']), rnd.random()<0.4)
            elif k < 0.9: expr = 'Data(until_marker=re.compile(%r), include_delimiter=True)' % rnd.choice([rb'a|b', rb'x+', rb'\.', rb'a+|$'])
            elif i == n-1: expr = 'Data(until_marker=EOS)'
            else: expr = 'Data(1)'
        fields.append((fname, expr)); i += 1
    return fields
bad = 0; tot = 0; build_fail = 0; matched = 0
for d in range(150):
    fields = gen_fields()
    try: m = defmod(cls_src('P', fields, NOGEN))
    except Exception as e: print('DEFINE FAIL', e, fields); continue
    P = m.P
    names = [n for n, f, _, _ in P.get_fields()]
    def rb(L): return bytes(rnd.choice(META + [1,2,3]) for _ in range(L))
    corpus = [rb(rnd.randint(0, 14)) for _ in range(60)]
    parsed = [(raw, P.unpack(raw, silent=True)) for raw in corpus]
    parsed = [(raw, p) for raw, p in parsed if p is not None]
    if not parsed: continue
    for t in range(12):
        raw0, p0 = rnd.choice(parsed)
        pat = anything_like(P)
        fixed = [n for n in names if rnd.random() < 0.5]
        for n in fixed: setattr(pat, n, getattr(p0, n))
        tot += 1
        try:
            rx = pat.as_regular_expression()
        except Exception as e:
            build_fail += 1; print('BUILD', type(e).__name__, str(e)[:80], fields, fixed); continue
        def eqp(p): return all(getattr(pat, n) == getattr(p, n) for n in names)
        for raw, p in parsed:
            if eqp(p):
                matched += 1
                if not rx.match(raw):
                    bad += 1; print('UNSOUND', fields, fixed, raw, rx.pattern); break
print('huntG seed', seed, 'patterns', tot, 'bad', bad, 'build_fail', build_fail, 'matching pairs', matched)
cleanup()
