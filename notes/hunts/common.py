import sys, os, itertools, random, re, importlib, shutil
sys.path.insert(0, '/repo')
from bisturi.packet import Packet, PacketError
from bisturi.field import Int, Data, Bits, Ref, Em, EOS, Field
MODDIR = '/tmp/hunt/mods'
os.makedirs(MODDIR, exist_ok=True)
sys.path.insert(0, MODDIR)
_n = [0]
HEADER = ("import re\nfrom bisturi.packet import Packet\nfrom bisturi.field import Int, Data, Bits, Ref, Em, EOS\n"
          "from bisturi.descriptor import Auto, AutoLength\n")
def defmod(classes_src):
    """classes_src: python source text defining classes; returns module"""
    _n[0] += 1
    name = 'hm_%d_%d' % (os.getpid(), _n[0])
    with open(os.path.join(MODDIR, name + '.py'), 'w') as f:
        f.write(HEADER + classes_src)
    return importlib.import_module(name)
def cls_src(name, fields, conf=None):
    lines = ['class %s(Packet):' % name]
    if conf is not None: lines.append('    __bisturi__ = %r' % (conf,))
    for k, v in fields: lines.append('    %s = %s' % (k, v))
    return '\n'.join(lines) + '\n'
NOGEN = {'generate_for_pack': False, 'generate_for_unpack': False}
def run(f):
    try: return ('ok', f())
    except PacketError as e: return ('perr', e.was_error_found_in_unpacking_phase, tuple(e.fields_stack))
    except Exception as e: return ('exc', type(e).__name__, str(e)[:80])
def cleanup():
    shutil.rmtree(MODDIR, ignore_errors=True)
