from common import *
import operator
from bisturi.deferred import compile_expr_into_callable, UnaryExpr, BinaryExpr, NaryExpr
m = defmod(cls_src('E', [('a','Int(1)'), ('b','Int(1, signed=True)'), ('s','Int(1).repeated(3)'), ('d','Data(2)'), ('o', 'Int(1).when(a)')], NOGEN))
E = m.E
F = {n: f for n, f, _, _ in E.get_fields()}
rnd = random.Random(7)
BIN = ['+','-','*','/','//','%','**','<=','<','>=','>','==','!=','&','|','^','>>','<<']
RBIN = ['+','-','*','/','//','%','**','&','|','^','>>','<<']
def gen(depth, kind='int'):
    # returns (deferred_src, eager_src, has_field)
    if depth == 0 or rnd.random() < 0.25:
        if kind == 'int':
            c = rnd.choice(['a','b','c'])
            if c == 'c':
                v = rnd.choice([0,1,2,3,5,8,-1,-3]); return (repr(v), repr(v), False)
            return (c, c, True)
        else:
            return ('s','s',True)
    r = rnd.random()
    if kind == 'seq':
        return ('s','s',True)
    if r < 0.55:
        op = rnd.choice(BIN)
        l = gen(depth-1); rr = gen(depth-1)
        if op in ('**','<<'):
            v = rnd.choice([0,1,2,3]); rr = (repr(v), repr(v), False)
            if not l[2]: l = ('a','a',True)
        if not l[2] and not rr[2]:
            l = ('a','a',True)
        if not l[2] and op not in RBIN:   # constant on the left needs a reflected op
            l, rr = rr, l
        return ('(%s %s %s)'%(l[0],op,rr[0]), '(%s %s %s)'%(l[1],op,rr[1]), True)
    if r < 0.65:
        op = rnd.choice(['-','~'])
        x = gen(depth-1)
        if not x[2]: x = ('b','b',True)
        return ('(%s%s)'%(op,x[0]), '(%s%s)'%(op,x[1]), True)
    if r < 0.75:
        i = gen(depth-1)
        return ('s[%s]'%i[0], 's[%s]'%i[1], True)
    if r < 0.80:
        lo = rnd.choice([0,1,-2]); hi = rnd.choice([1,2,3,-1])
        return ('(s[%d:%d].__len__())'%(lo,hi), 'len(s[%d:%d])'%(lo,hi), True)
    if r < 0.85:
        return ('(s.__len__())', 'len(s)', True)
    if r < 0.93:
        sel = gen(depth-1); 
        if not sel[2]: sel = ('a','a',True)
        opts = [gen(depth-1) for _ in range(rnd.choice([2,3]))]
        form = rnd.choice(['pos','list','dict','kw'])
        if form == 'pos':
            return ('(%s).chooses(%s)'%(sel[0], ', '.join(o[0] for o in opts)), 'CH(%s, (%s,))'%(sel[1], ', '.join(o[1] for o in opts)), True)
        if form == 'list':
            return ('(%s).chooses([%s])'%(sel[0], ', '.join(o[0] for o in opts)), 'CH(%s, (%s,))'%(sel[1], ', '.join(o[1] for o in opts)), True)
        if form == 'dict':
            keys = [0,1,2][:len(opts)]
            return ('(%s).chooses({%s})'%(sel[0], ', '.join('%d: %s'%(k,o[0]) for k,o in zip(keys,opts))), 'CH(%s, {%s})'%(sel[1], ', '.join('%d: %s'%(k,o[1]) for k,o in zip(keys,opts))), True)
        return ('(d).chooses(%s)'%(', '.join('k%d=%s'%(k,o[0]) for k,o in enumerate(opts))), 'CH(d, {%s})'%(', '.join('b"k%d": %s'%(k,o[1]) for k,o in enumerate(opts))), True)
    c = gen(depth-1)
    if not c[2]: c = ('a','a',True)
    x = gen(depth-1); y = gen(depth-1)
    return ('(%s).if_true_then_else(%s, %s)'%(c[0],x[0],y[0]), 'ITE(%s, %s, %s)'%(c[1],x[1],y[1]), True)
def CH(i, opts): return opts[i]
def ITE(c, x, y): return x if bool(c) else y
bad = 0; tot = 0; exc = 0; kinds = {}
pk_vals = [(0,0,[1,2,3],b'k0'), (1,-1,[0,0,0],b'k1'), (2,3,[5,250,9],b'zz'), (255,-128,[1,1,2],b'k2'), (3,2,[2,1,0],b'k1')]
for t in range(60000):
    dsrc, esrc, hf = gen(rnd.choice([1,2,2,3,4]))
    if not hf: continue
    try:
        expr = eval(dsrc, dict(F))
    except Exception as e:
        # building the deferred tree itself failed -> would the eager one?
        kinds['build-'+type(e).__name__] = kinds.get('build-'+type(e).__name__,0)+1
        continue
    if not isinstance(expr, (UnaryExpr, BinaryExpr, NaryExpr)):
        continue
    f = compile_expr_into_callable(expr)
    for a,b,s,d in pk_vals:
        pkt = E(a=a,b=b,s=list(s),d=d)
        tot += 1
        try: ev = ('ok', eval(esrc, {'a':a,'b':b,'s':list(s),'d':d,'CH':CH,'ITE':ITE}))
        except Exception as e: ev = ('exc', type(e).__name__)
        try: dv = ('ok', f(pkt=pkt))
        except Exception as e: dv = ('exc', type(e).__name__)
        if ev[0]=='exc': exc += 1
        same = (ev == dv) and (ev[0]=='exc' or type(ev[1]) == type(dv[1]))
        if not same:
            bad += 1
            if bad < 15: print('DIFF', dsrc, '|', esrc, (a,b,s,d), ev, dv)
print('huntC total', tot, 'bad', bad, 'exceptions', exc, kinds)
cleanup()
