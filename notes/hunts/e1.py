import sys, re, traceback
sys.path.insert(0, '/repo')
from bisturi.packet import Packet, PacketError
from bisturi.field import Int, Data, Bits, Ref, Em
from bisturi.fragments import Fragments

def show(label, f):
    try:
        r = f()
        print(label, '->', repr(r))
    except Exception as e:
        print(label, 'RAISED', type(e).__name__, str(e).split('\n')[0][:200])

# F1: Int(3) strictness
class I3(Packet):
    a = Int(3)
show('I3 short', lambda: (I3.unpack(b'\x01').a))
show('I3 empty', lambda: (I3.unpack(b'').a))
class I4(Packet):
    a = Int(4)
show('I4 short', lambda: (I4.unpack(b'\x01').a))
class B24(Packet):
    x = Bits(12); y = Bits(12)
show('B24 short', lambda: (lambda p:(p.x,p.y))(B24.unpack(b'\xff')))
class I3s(Packet):
    a = Int(3, signed=True)
show('I3s pack 2**23', lambda: I3s(a=2**23).pack())
show('I3 pack -1', lambda: I3(a=-1).pack())
show('I3 pack 1.0', lambda: I3(a=1.0).pack())
show('I3 pack "x"', lambda: I3(a="x").pack())
show('I3 pack True', lambda: I3(a=True).pack())

# C20: eq/repr with Move/Em
class M(Packet):
    a = Int(1)
    b = Int(1).at(3)
p = M.unpack(b'\x01..\x02'); q = M.unpack(b'\x01..\x02')
show('M eq', lambda: p == q)
show('M ne', lambda: p != q)
show('M repr', lambda: repr(p))
class E(Packet):
    a = Int(1)
    t = Em()
p = E.unpack(b'\x01'); q = E.unpack(b'\x01')
show('E eq', lambda: p == q)
show('E repr', lambda: repr(p))
class AL(Packet):
    __bisturi__ = {'align': 2}
    a = Int(1)
    b = Int(1)
p = AL.unpack(b'\x01.\x02'); q = AL.unpack(b'\x01.\x02')
show('AL eq', lambda: p == q)
show('AL pack', lambda: p.pack())
show('AL default eq', lambda: AL() == AL())

# C11: empty fragment false collision
f = Fragments(); f.insert(0, b'a'); f.insert(5, b''); 
show('frag insert over empty', lambda: (f.insert(2, b'wxyz'), f.tobytes()))
f = Fragments(); f.insert(5, b'');
show('frag insert over empty 2', lambda: (f.insert(2, b'wxyz'), f.tobytes()))
f = Fragments(); f.insert(0, b'abcd');
show('frag empty inside', lambda: (f.insert(2, b''), f.tobytes()))
f = Fragments(); f.insert(0, b'abcd');
show('frag empty at start of existing', lambda: (f.insert(0, b''), f.tobytes()))
f = Fragments(); f.insert(3, b'');
show('frag nonempty at same pos as empty', lambda: (f.insert(3, b'xy'), f.tobytes(), f.begin_of_fragments))
f = Fragments(); f.insert(3, b'xy'); f.insert(7, b'')
show('frag extent', lambda: (f.tobytes(), f.current_offset))
