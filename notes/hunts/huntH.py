from common import *
import patches
seed = int(sys.argv[1]) if len(sys.argv) > 1 else 1
rnd = random.Random(seed)
SUBS = '''
class SubI(Packet):
    x = Int(1)
    y = Int(2, endianness='little')
    z = Int(3)
class SubL(Packet):
    l = Int(1)
    v = Data(l)
'''
def gen_fields():
    fields = []; ints = []
    n = rnd.randint(2, 6)
    for i in range(n):
        fname = 'f%d' % i; r = rnd.random()
        if r < 0.35:
            w = rnd.choice([1,2,4,3]); expr = 'Int(%d)' % w
            if w <= 1: ints.append(fname)
        elif r < 0.5: expr = 'Data(%d)' % rnd.randint(1,4)
        elif r < 0.6 and ints: expr = 'Data(%s)' % rnd.choice(ints)
        elif r < 0.68: expr = "Data(until_marker=b'\\x00')"
        elif r < 0.8: expr = 'Ref(%s)' % rnd.choice(['SubI','SubL'])
        elif r < 0.9 and ints: expr = '%s.repeated(%s)' % (rnd.choice(['Int(2)','Ref(SubI)','Ref(SubL)']), rnd.choice(ints))
        elif ints: expr = 'Int(2).when(%s)' % rnd.choice(ints)
        else: expr = 'Int(1)'
        if rnd.random() < 0.1: expr += rnd.choice(['.aligned(2)', '.at(%d)' % rnd.randint(0,9), '.shift(1)'])
        fields.append((fname, expr))
    return fields
bad = 0; tot = 0; strfail = 0
for d in range(60):
    fields = gen_fields()
    gen = rnd.random() < 0.5
    conf = {} if gen else dict(NOGEN)
    src = SUBS
    # full class and its prefixes (prefixes use the generic loop so that names are per-field)
    src += cls_src('Full', fields, conf)
    for k in range(len(fields)+1):
        src += cls_src('Pre%d' % k, fields[:k] if k else [('zz', 'Em()')], NOGEN)
    try: m = defmod(src)
    except Exception as e: print('DEFINE FAIL', type(e).__name__, e, fields); continue
    full_names = [n for n, f, _, _ in m.Full.get_fields()]
    def rb(L): return bytes(rnd.choice([0,0,1,1,2,3,4,255, rnd.randrange(256)]) for _ in range(L))
    for t in range(60):
        raw = rb(rnd.randint(0, 18)); off = rnd.choice([0,0,2])
        try:
            m.Full.unpack(raw, off); continue
        except PacketError as e:
            err = e
        except Exception as e:
            bad += 1; print('NONPERR', type(e).__name__, fields, raw); continue
        tot += 1
        try: s = str(err)
        except Exception as e2: strfail += 1; print('STRFAIL', e2)
        if not err.was_error_found_in_unpacking_phase: bad += 1; print('PHASE', fields, raw)
        o, name, cls = err.fields_stack[-1]      # outermost entry = field of Full
        if cls != 'Full': bad += 1; print('CLS', err.fields_stack); continue
        # which source field k failed? first k such that Pre(k+1) fails
        k_fail = None
        for k in range(len(fields)):
            try: end = m.__dict__['Pre%d' % (k+1)].unpack_impl.__self__ if False else None
            except Exception: pass
        ends = []
        for k in range(len(fields)+1):
            C = m.__dict__['Pre%d' % k]
            pk = C(_initialize_fields=False)
            try: ends.append(pk.unpack_impl(raw, off, root=pk))
            except PacketError as e3: ends.append(None); break
        k_fail = len(ends) - 2      # last successful prefix has k_fail fields
        fname = fields[k_fail][0]
        # offset where field k_fail is entered: end of prefix k_fail, then its own Move (if any) applied.
        # reported name may be the field, its move pseudo-field, or a run "between 'a' and 'b'" containing it
        ok_name = (name == fname) or (name == '_shift_to_' + fname) or (name.startswith("between '") and gen)
        if not ok_name:
            bad += 1; print('NAME', fields, raw, off, err.fields_stack, 'expected', fname); continue
        if name == fname and 'aligned' not in fields[k_fail][1] and '.at(' not in fields[k_fail][1] and '.shift(' not in fields[k_fail][1]:
            if o != ends[k_fail]:
                bad += 1; print('OFFSET', fields, raw, off, err.fields_stack, 'expected', ends[k_fail])
        # depth: nested entries only if failing field is Ref / repeated Ref
        nested = len(err.fields_stack) - 1
        is_ref = 'Ref(' in fields[k_fail][1]
        if nested > (1 if is_ref else 0): bad += 1; print('DEPTH', fields, raw, err.fields_stack)
        if is_ref and name == fname and nested != 1 and 'repeated' not in fields[k_fail][1]:
            bad += 1; print('DEPTH0', fields, raw, err.fields_stack)
print('huntH seed', seed, 'errors checked', tot, 'bad', bad, 'strfail', strfail)
cleanup()
