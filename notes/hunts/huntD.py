from common import *
# C17: exhaustive histories vs abstract spec, both code paths, Auto and AutoLength
src = ''
for gen in (0,1):
    conf = {} if gen else dict(NOGEN)
    src += cls_src('AL%d'%gen, [('length', "Int(1).describe(AutoLength('a'))"), ('a', "Data(length)")], conf)
    src += cls_src('AU%d'%gen, [('length', "Int(1).describe(Auto(lambda pkt: len(pkt.a) + 1))"), ('a', "Data(until_marker=b'\\x00')")], conf)
m = defmod(src)
OPS = ['seta1','seta3','setl5','setl0','del','pack','ctor','ctorkw','unpack']
bad = 0; tot = 0
for cname, comp, enc, rawsample in (('AL', lambda a: len(a), lambda l,a: bytes([l])+a, b'\x02xy'), ('AU', lambda a: len(a)+1, lambda l,a: bytes([l])+a+b'\x00', b'\x09xy\x00')):
  for gen in (0,1):
    C = getattr(m, cname+str(gen))
    for L in range(1,6):
        for hist in itertools.product(OPS, repeat=L):
            if hist[0] not in ('ctor','ctorkw','unpack'): continue
            p = None; spec_a = None; spec_exp = None
            ok = True
            for op in hist:
                if op == 'ctor': p = C(); spec_a = b''; spec_exp = None
                elif op == 'ctorkw': p = C(length=7, a=b'q'); spec_a = b'q'; spec_exp = 7
                elif op == 'unpack': p = C.unpack(rawsample); spec_a = b'xy'; spec_exp = None
                elif op == 'seta1': p.a = b'k'; spec_a = b'k'
                elif op == 'seta3': p.a = b'klm'; spec_a = b'klm'
                elif op == 'setl5': p.length = 5; spec_exp = 5
                elif op == 'setl0': p.length = 0; spec_exp = 0
                elif op == 'del': del p.length; spec_exp = None
                elif op == 'pack':
                    want = enc(spec_exp if spec_exp is not None else comp(spec_a), spec_a)
                    got = p.pack()
                    if got != want: ok = False; print('PACK', cname, gen, hist, got, want); break
                vis = spec_exp if spec_exp is not None else comp(spec_a)
                tot += 1
                if p.length != vis or p.a != spec_a or hasattr(p, '__dict__'):
                    ok = False; print('READ', cname, gen, hist, op, p.length, vis); break
            if not ok: bad += 1
print('huntD total', tot, 'bad', bad)
cleanup()
