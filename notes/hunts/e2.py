import sys, re, traceback
sys.path.insert(0, '/repo')
from bisturi.packet import Packet, PacketError
from bisturi.field import Int, Data, Bits, Ref, Em
from bisturi.pattern_matching import Any, anything_like, filter as pfilter
from bisturi.descriptor import Auto, AutoLength

def show(label, f):
    try:
        r = f()
        print(label, '->', repr(r))
    except Exception as e:
        print(label, 'RAISED', type(e).__name__, str(e).split('\n')[0][:300])

# F2 regex delimiter remembered on shared field
class R(Packet):
    d = Data(until_marker=re.compile(b'X+'))
    t = Int(1)
p1 = R.unpack(b'abXXX\x01'); 
show('R p1 pack', lambda: p1.pack())
p2 = R.unpack(b'cdX\x02')
show('R p1 pack after p2 parse', lambda: p1.pack())
show('R p2 pack', lambda: p2.pack())
show('R built pack', lambda: R(d=b'zz', t=3).pack())

# F3 ref selector sharing
class DN(Packet):
    l = Int(1); n = Data(l)
class S(Packet):
    t = Int(1, default=1)
    a = Ref(t.chooses({1: Data(4), 3: DN()}), default=b'\0\0\0\0')
s1 = S.unpack(b'\x03\x02ab'); s2 = S.unpack(b'\x03\x03xyz')
show('S share', lambda: (s1.a is s2.a, s1.a.n, s2.a.n, s1.pack()))

# C18 Any for length field
class TLV(Packet):
    t = Int(1); l = Int(1); v = Data(l)
pat = anything_like(TLV)
show('TLV any regexp', lambda: pat.as_regular_expression().pattern)
pat.l = 2
show('TLV l=2 regexp', lambda: pat.as_regular_expression().pattern)
class TLV2(Packet):
    t = Int(1); l = Int(1); v = Data(l*1)
pat = anything_like(TLV2)
show('TLV2 any regexp', lambda: pat.as_regular_expression().pattern)
class BB(Packet):
    a = Bits(4); b = Bits(4); d = Data(until_marker=b'\n')
pat = anything_like(BB); pat.b = 3; 
show('BB regexp', lambda: pat.as_regular_expression().pattern)
show('BB filter', lambda: [ (x.a,x.b,x.d) for x in pfilter(pat, [b'\x13ab\ncd', b'\x14ab\n', b'\xf3\n'])])
pat.d = b'a.b'
show('BB regexp lit', lambda: pat.as_regular_expression().pattern)

# C12: pack error offsets for sequence
class SQ(Packet):
    h = Int(1)
    s = Int(1).repeated(h)
q = SQ(h=3, s=[1,2,300])
try:
    q.pack()
except PacketError as e:
    print('SQ pack err', e.was_error_found_in_unpacking_phase, e.fields_stack, e.original_error_message)
class Inner(Packet):
    x = Int(2); y = Int(3)
class Outer(Packet):
    h = Int(1)
    i = Ref(Inner)
o = Outer(); o.i.y = -1
try:
    o.pack()
except PacketError as e:
    print('Outer pack err', e.fields_stack, e.original_error_message)
try:
    Outer.unpack(b'\x01\x00\x02')
except PacketError as e:
    print('Outer unpack err', e.fields_stack, e.original_error_message)
    str(e)
class Outer2(Packet):
    h = Int(1)
    i = Ref(Inner).repeated(2)
try:
    Outer2.unpack(b'\x01\x00\x02\x00\x00\x03\x00')
except PacketError as e:
    print('Outer2 unpack err', e.fields_stack, e.original_error_message)
show('not bytes', lambda: Outer.unpack('abc'))
show('not bytes silent', lambda: Outer.unpack('abc', silent=True))
show('bytearray', lambda: Outer.unpack(bytearray(b'abc')))

# C17 Auto
class DE(Packet):
    length = Int(1).describe(AutoLength('a'))
    a = Data(length)
p = DE()
show('DE default', lambda: (p.length, p.a, p.pack()))
p.a = b'abc'
show('DE after set a', lambda: (p.length, p.pack()))
p.length = 7
show('DE after set length', lambda: (p.length, p.pack()))
del p.length
show('DE after del', lambda: (p.length, p.pack()))
p = DE.unpack(b'\x02ab')
show('DE unpack', lambda: (p.length, p.a, getattr(p,'_is_descriptor_length_enabled','unset')))
p.a = b'abcd'
show('DE unpack then set a', lambda: (p.length, p.pack()))
p = DE(length=9)
show('DE ctor length', lambda: (p.length, p.pack(), hasattr(p,'__dict__')))
show('DE eq', lambda: DE.unpack(b'\x02ab') == DE.unpack(b'\x02ab'))
