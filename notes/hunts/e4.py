import sys, re
sys.path.insert(0, '/repo')
from bisturi.packet import Packet, PacketError
from bisturi.field import Int, Data, Bits, Ref, Em, EOS

def show(label, f):
    try:
        r = f()
        print(label, '->', repr(r))
    except Exception as e:
        print(label, 'RAISED', type(e).__name__, str(e).split('\n')[0][:300])

class Neg(Packet):
    a = Int(1)
    b = Int(1).shift(-4)
show('Neg unpack', lambda: (lambda p:(p.a,p.b))(Neg.unpack(b'\x01\x02\x03\x04\x05')))
show('Neg pack', lambda: Neg(a=1,b=2).pack())
class Neg2(Packet):
    o = Int(1, signed=True)
    b = Data(2).at(o)
show('Neg2 unpack', lambda: (lambda p:(p.o,p.b))(Neg2.unpack(b'\xfdABCDE')))
show('Neg2 pack', lambda: Neg2.unpack(b'\xfdABCDE').pack())

class Rg(Packet):
    d = Data(until_marker=re.compile(b'X+'))
    t = Int(1)
show('Rg ctor pack', lambda: Rg(d=b'ab', t=1).pack())
show('Rg consistency', lambda: Rg(d=b'ab', t=1).assert_consistency())

# defaults
class Sub(Packet):
    x = Int(1, default=7); y = Data(2)
class Dflt(Packet):
    i = Int(2, default=5)
    b1 = Bits(3, default=2); b2 = Bits(5)
    d4 = Data(4); dv = Data(i); dm = Data(until_marker=b'\0', default=b'zz')
    r = Ref(Sub(x=9)); r2 = Ref(Sub)
    s = Int(1).repeated(2); s2 = Int(1).repeated(2, default=[1,2])
    o = Int(1).when(i); o2 = Int(1).when(i, default=3)
p = Dflt(); q = Dflt()
show('Dflt', lambda: (p.i,p.b1,p.b2,p.d4,p.dv,p.dm,(p.r.x,p.r.y),(p.r2.x,p.r2.y),p.s,p.s2,p.o,p.o2))
show('Dflt pack', lambda: p.pack())
show('Dflt alias', lambda: (p.s is q.s, p.s2 is q.s2, p.r is q.r, p.s2 is Dflt.get_fields()[9][1].default))
show('Dflt kw', lambda: (lambda z:(z.i, z.s2, z.r.x))(Dflt(i=1, s2=[9])))
show('Dflt unknown kw', lambda: Dflt(nonexistent=1).i)
