import sys
sys.path.insert(0, '/repo')
from bisturi.packet import Packet, PacketError
from bisturi.field import Int, Data, Bits, Ref
from bisturi.descriptor import AutoLength
def show(label, f):
    try:
        r = f(); print(label, '->', repr(r))
    except Exception as e:
        print(label, 'RAISED', type(e).__name__, str(e).split('\n')[0][:200])
class DE(Packet):
    length = Int(1).describe(AutoLength('a'))
    a = Data(length)
p = DE(); p.a = None
show('DE pack a=None', lambda: p.pack())
p = DE(); p.a = 5
show('DE pack a=5', lambda: p.pack())
# error stacks: generic vs generated
class In(Packet):
    x = Int(1); y = Int(2); z = Int(3)
class Out(Packet):
    h = Int(1)
    i = Ref(In).repeated(2)
    t = Int(1)
class OutG(Packet):
    __bisturi__ = {'generate_for_pack': False, 'generate_for_unpack': False}
    h = Int(1)
    i = Ref(In).repeated(2)
    t = Int(1)
for C in (Out, OutG):
    for raw in (b'', b'\x01', b'\x01\x02\x03', b'\x01\x02\x03\x04\x05\x06\x07' + b'\x02\x03'):
        try:
            C.unpack(raw); print(C.__name__, raw, 'OK')
        except PacketError as e:
            print(C.__name__, raw, e.was_error_found_in_unpacking_phase, e.fields_stack)
    o = C(i=[In(), In(y=70000)])
    try: o.pack()
    except PacketError as e: print(C.__name__, 'pack', e.was_error_found_in_unpacking_phase, e.fields_stack)
