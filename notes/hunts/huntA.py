from common import *
bad = 0; tot = 0
specs = []
src = ''
for n in (1,2,3,4,5,7,8,9,16):
  for signed in (False, True):
    for en in (None,'big','little','network','local'):
      for cdef in (None,'little','big'):
        for gen in (False, True):
            conf = {} if gen else dict(NOGEN)
            if cdef: conf['endianness'] = cdef
            name = 'A_%d_%d_%s_%s_%d'%(n,signed,en,cdef,gen)
            src += cls_src(name, [('a', 'Int(%d, signed=%r, endianness=%r)'%(n,signed,en)), ('z','Int(1)')], conf)
            specs.append((name,n,signed,en,cdef,gen))
m = defmod(src)
for name,n,signed,en,cdef,gen in specs:
    C = getattr(m, name)
    eff = en if en is not None else (cdef or 'big')
    big = eff in ('big','network') or (eff=='local' and sys.byteorder=='big')
    bo = 'big' if big else 'little'
    lo, hi = (-(1<<(8*n-1)), 1<<(8*n-1)) if signed else (0, 1<<(8*n))
    if n <= 2 and cdef is None and not gen:
        pats = [bytes([i]) for i in range(256)] if n==1 else [bytes([i>>8,i&255]) for i in range(65536)]
        vals = range(lo-2, hi+2)
    else:
        pats = [bytes([0]*n), bytes([255]*n), bytes([0x80]+[0]*(n-1)), bytes([0]*(n-1)+[0x80]), bytes([0x7f]+[255]*(n-1)), bytes(range(1,n+1))]
        for lane in range(n):
            for v in (1,0x7f,0x80,0xff):
                b=[0]*n; b[lane]=v; pats.append(bytes(b))
        vals = [lo-1, lo, lo+1, -1, 0, 1, hi-2, hi-1, hi, hi+1, 255,256,65535,65536]
    for p in pats:
        tot += 1
        r = run(lambda: C.unpack(p + b'\x07'))
        exp = int.from_bytes(p, bo, signed=signed)
        if r[0] != 'ok' or r[1].a != exp or r[1].z != 7:
            bad += 1; print('DECODE', name, p, r[:2], exp)
    for v in vals:
        tot += 1
        r = run(lambda: C(a=v, z=7).pack())
        if lo <= v < hi:
            exp = v.to_bytes(n, bo, signed=signed) + b'\x07'
            if r != ('ok', exp): bad += 1; print('ENCODE', name, v, r, exp)
        else:
            if r[0] != 'perr' or r[1] is not False: bad += 1; print('RANGE', name, v, r)
    for v in (1.0, 'x', None, 1.5):
        tot += 1
        r = run(lambda: C(a=v, z=7).pack())
        if r[0] != 'perr': bad += 1; print('TYPE', name, v, r)
print('huntA total', tot, 'bad', bad)
cleanup()
