# emulate the planned fixes D1, D2 so that the hunt shows what else is there
from bisturi.field import Int
from bisturi.structural_fields import Move
_orig_unpack = Int._unpack_fixed_size
def _strict(self, pkt, raw, offset=0, **k):
    if len(raw[offset:offset + self.byte_count]) != self.byte_count:
        raise Exception("short")
    return _orig_unpack(self, pkt, raw, offset, **k)
Int._unpack_fixed_size = _strict
_orig_move = Move.unpack
def _move(self, pkt, raw, offset=0, **k):
    r = _orig_move(self, pkt, raw, offset, **k)
    if r < 0: raise Exception("negative position")
    return r
Move.unpack = _move
