from common import *
bad = 0; tot = 0
# sized modes
src = ''
specs = []
i = 0
for mode in ('const','field','expr','callable'):
    for gen in (False, True):
        for k in ([0,1,2,3] if mode=='const' else [None]):
            i += 1
            name = 'S%d' % i
            conf = {} if gen else dict(NOGEN)
            sz = {'const': '%r' % k, 'field': 'n', 'expr': 'n - 2', 'callable': 'lambda pkt, **k: pkt.n - 2'}[mode]
            src += cls_src(name, [('n', 'Int(1, signed=True)'), ('d', 'Data(%s)' % sz), ('z', 'Int(1)')], conf)
            specs.append((name, mode, k))
m = defmod(src)
for name, mode, k in specs:
    C = getattr(m, name)
    for nval in range(-3, 7):
        for L in range(0, 8):
            body = bytes(range(65, 65+L))
            raw = bytes([nval & 255]) + body
            size = {'const': k, 'field': nval, 'expr': nval-2, 'callable': nval-2}[mode]
            r = run(lambda: C.unpack(raw))
            tot += 1
            if size is not None and size >= 0 and 1 + size + 1 <= len(raw):
                exp_d = raw[1:1+size]; exp_z = raw[1+size]
                if r[0] != 'ok' or r[1].d != exp_d or r[1].z != exp_z:
                    bad += 1; print('SIZED', name, mode, raw, r[:2])
                elif r[1].pack() != raw[:1+size+1]:
                    bad += 1; print('SIZEDPACK', name, raw, r[1].pack())
            else:
                if r[0] != 'perr': bad += 1; print('SIZEDERR', name, mode, size, raw, r[:3])
print('sized total', tot, 'bad', bad)

# marker modes: bytes markers over alphabet {a,b}, inputs <= 7, windows, include
src = ''; specs = []
markers = [b'a', b'ab', b'aa', b'aba', b'ba']
i = 0
for mk in markers:
    for incl in (False, True):
        for win in (None, 0, 1, 2, 3, 4):
            for gen in (False,):
                i += 1; name = 'M%d' % i
                conf = dict(NOGEN)
                if win is not None: conf['search_buffer_length'] = win
                src += cls_src(name, [('h','Int(1)'), ('d', 'Data(until_marker=%r, include_delimiter=%r)' % (mk, incl)), ('t', 'Data(until_marker=EOS)')], conf)
                specs.append((name, mk, incl, win))
m = defmod(src)
for name, mk, incl, win in specs:
    C = getattr(m, name)
    for L in range(0, 7):
        for tup in itertools.product(b'ab', repeat=L):
            body = bytes(tup)
            raw = b'\x01' + body
            tot += 1
            window = body if not win else body[:win]
            idx = window.find(mk)
            r = run(lambda: C.unpack(raw))
            if idx < 0:
                if r[0] != 'perr' or r[2][0][1] != 'd': bad += 1; print('MK-ERR', name, mk, incl, win, raw, r[:3])
            else:
                val = body[:idx + (len(mk) if incl else 0)]
                rest = body[idx+len(mk):]
                if r[0] != 'ok' or r[1].d != val or r[1].t != rest:
                    bad += 1; print('MK', name, mk, incl, win, raw, r[0], getattr(r[1],'d',None), getattr(r[1],'t',None), val, rest)
                elif r[1].pack() != raw:
                    bad += 1; print('MKPACK', name, raw, r[1].pack())
print('marker total', tot, 'bad', bad)

# regex markers
src = ''; specs = []
regs = [rb'a+', rb'a+|$', rb'ab|b', rb'$', rb'b|ab']
i = 0
for rg in regs:
    for incl in (False, True):
        for win in (None, 2, 3):
            i += 1; name = 'R%d' % i
            conf = dict(NOGEN)
            if win is not None: conf['search_buffer_length'] = win
            src += cls_src(name, [('h','Int(1)'), ('d', 'Data(until_marker=re.compile(%r), include_delimiter=%r)' % (rg, incl)), ('t', 'Data(until_marker=EOS)')], conf)
            specs.append((name, rg, incl, win))
m = defmod(src)
for name, rg, incl, win in specs:
    C = getattr(m, name)
    R = re.compile(rg)
    for L in range(0, 7):
        for tup in itertools.product(b'ab', repeat=L):
            body = bytes(tup); raw = b'\x01' + body
            tot += 1
            r = run(lambda: C.unpack(raw))
            if rg == rb'$':
                s, e = len(body), len(body); mt = True
            else:
                window = body if not win else body[:win]
                mo = R.search(window); mt = mo is not None
                if mt: s, e = mo.start(), mo.end()
            if not mt:
                if r[0] != 'perr' or r[2][0][1] != 'd': bad += 1; print('RG-ERR', name, rg, incl, win, raw, r[:3])
            else:
                val = body[:e] if incl else body[:s]; rest = body[e:]
                if r[0] != 'ok' or r[1].d != val or r[1].t != rest:
                    bad += 1; print('RG', name, rg, incl, win, raw, r[0], getattr(r[1],'d',None), getattr(r[1],'t',None), val, rest)
                elif r[1].pack() != raw:
                    bad += 1; print('RGPACK', name, rg, incl, win, raw, r[1].pack())
print('all total', tot, 'bad', bad)
cleanup()
