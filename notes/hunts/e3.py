import sys, re, traceback, os
sys.path.insert(0, '/repo')
from bisturi.packet import Packet, PacketError
from bisturi.field import Int, Data, Bits, Ref, Em, EOS
from bisturi.pattern_matching import Any, anything_like, filter as pfilter

def show(label, f):
    try:
        r = f()
        print(label, '->', repr(r))
    except Exception as e:
        print(label, 'RAISED', type(e).__name__, str(e).split('\n')[0][:300])

# C01 offset + begins alignment
class P(Packet):
    a = Int(1)
    b = Int(1).aligned(4)
raw = b'X\x01..\x02'
p = P.unpack(raw, offset=1)
show('P aligned offset=1', lambda: (p.a, p.b, p.pack()))
class P2(Packet):
    a = Int(1)
    b = Int(1).at(3)
p = P2.unpack(b'XX\x01..\x02', offset=2)
show('P2 at innermost offset=2', lambda: (p.a, p.b, p.pack()))
class P3(Packet):
    a = Int(1)
    s = Int(1).repeated(2, aligned=2)
p = P3.unpack(b'X\x01\x02.\x03', offset=1)
show('P3 seq aligned offset=1', lambda: (p.a, p.s, p.pack()))

# C18 alternation
class A(Packet):
    t = Int(1)
    d = Data(until_marker=re.compile(b'a|b'), include_delimiter=True)
    u = Int(1)
pat = anything_like(A); pat.t = 5; pat.u = 7
show('A regexp', lambda: pat.as_regular_expression().pattern)
raws = [b'\x05zzb\x07', b'\x05zza\x07', b'\x05zza\x08']
show('A filter with', lambda: [(x.t,x.d,x.u) for x in pfilter(pat, raws)])
show('A filter without', lambda: [(x.t,x.d,x.u) for x in pfilter(pat, raws, filter_with_regexp_first=False)])

# C03 Data(n) with wrong length
class D(Packet):
    d = Data(4); e = Int(1)
class Dg(Packet):
    __bisturi__ = {'generate_for_pack': False, 'generate_for_unpack': False}
    d = Data(4); e = Int(1)
show('D pack short', lambda: D(d=b'ab').pack())
show('Dg pack short', lambda: Dg(d=b'ab').pack())
show('D pack long', lambda: D(d=b'abcdef').pack())
show('Dg pack long', lambda: Dg(d=b'abcdef').pack())

# EOS offset beyond
class Z(Packet):
    a = Int(1).at(10)
class Z2(Packet):
    x = Int(1)
    d = Data(until_marker=EOS).at(10)
show('Z at beyond', lambda: Z.unpack(b'ab').a)
show('Z2 EOS beyond', lambda: (lambda p: (p.x, p.d, p.pack()))(Z2.unpack(b'ab')))

# C08 edges
class S1(Packet):
    n = Int(1, signed=True)
    s = Int(1).repeated(n)
    t = Int(1)
show('S1 neg count', lambda: (lambda p: (p.s, p.t))(S1.unpack(b'\xff\x09')))
class S2(Packet):
    n = Int(1)
    s = Int(1).repeated(until=lambda pkt, **k: pkt.s[-1] == 0, when=n)
    t = Int(1)
show('S2 when false', lambda: (lambda p: (p.s, p.t))(S2.unpack(b'\x00\x09')))
show('S2 when true', lambda: (lambda p: (p.s, p.t))(S2.unpack(b'\x01\x05\x00\x09')))
class S3(Packet):
    n = Int(1)
    s = Int(1).repeated(n, when=lambda pkt, **k: False)
show('S3 ', lambda: (lambda p: (p.s,))(S3.unpack(b'\x02\x09')))
# Data negative size
class N(Packet):
    n = Int(1, signed=True)
    d = Data(n)
show('N neg', lambda: N.unpack(b'\xffabc').d)
class N2(Packet):
    n = Int(1, signed=True)
    d = Data(n+0)
show('N2 neg', lambda: N2.unpack(b'\xffabc').d)
