From Coq Require Import ZArith List Bool Lia.
Import ListNotations.
Open Scope Z_scope.

Definition bytes := list Z.
Definition slice (raw : bytes) (a n : Z) : bytes := firstn (Z.to_nat n) (skipn (Z.to_nat a) raw).

Inductive reference := RInner | RBegins | RCur.
Inductive elem := EData (n : Z) | ERef (c : nat).
Inductive field := FElem (e : elem) | FSeq (e : elem) (count : nat) (al : Z) | FAt (pos : Z) (r : reference).
Definition ctab := nat -> list field.
Inductive value := VBytes (b : bytes) | VList (l : list value) | VPkt (l : list value) | VUnit.
Definition chunk := (Z * bytes)%type.
Definition align (al off : Z) : Z := off + (al - off mod al) mod al.
Definition move (p : Z) (r : reference) (off ipp : Z) : Z :=
  match r with RInner => ipp + p | RBegins => p | RCur => off + p end.

Definition res := option (value * Z * list chunk).
Definition resl := option (list value * Z * list chunk).

Section Unpack.
  Variable raw : bytes.
  Variable rec_pkt : nat -> Z -> res.
  Definition unpack_elem (e : elem) (off : Z) : res :=
    match e with
    | EData n => let b := slice raw off n in
                 if (0 <=? off) && (0 <=? n) && (Z.of_nat (length b) =? n) then Some (VBytes b, off + n, [(off, b)]) else None
    | ERef c' => rec_pkt c' off
    end.
  Fixpoint unpack_rep (e : elem) (al : Z) (k : nat) (off : Z) : resl :=
    match k with O => Some ([], off, []) | S k =>
      match unpack_elem e (align al off) with None => None | Some (v, off1, t1) =>
      match unpack_rep e al k off1 with None => None | Some (vs, off2, t2) => Some (v :: vs, off2, t1 ++ t2) end end end.
  Definition unpack_field (f : field) (off ipp : Z) : res :=
    match f with
    | FElem e => unpack_elem e off
    | FSeq e k al => match unpack_rep e al k off with None => None | Some (vs, o, t) => Some (VList vs, o, t) end
    | FAt p r => Some (VUnit, move p r off ipp, [])
    end.
  Fixpoint unpack_fields (fs : list field) (off ipp : Z) : resl :=
    match fs with [] => Some ([], off, []) | f :: r =>
      match unpack_field f off ipp with None => None | Some (v, off1, t1) =>
      match unpack_fields r off1 ipp with None => None | Some (vs, off2, t2) => Some (v :: vs, off2, t1 ++ t2) end end end.
End Unpack.

Fixpoint unpack_pkt (fuel : nat) (ct : ctab) (raw : bytes) (c : nat) (off : Z) : res :=
  match fuel with O => None | S fuel =>
    match unpack_fields raw (unpack_pkt fuel ct raw) (ct c) off off with
    | None => None | Some (vs, o, t) => Some (VPkt vs, o, t) end end.

(* ---- pack: cursor-threading, returns the list of insert operations ---- *)
Definition pres := option (Z * list chunk).
Section Pack.
  Variable rec_pkt : nat -> value -> Z -> pres.
  Definition pack_elem (e : elem) (v : value) (cur : Z) : pres :=
    match e, v with
    | EData n, VBytes b => Some (cur + Z.of_nat (length b), [(cur, b)])
    | ERef c', VPkt _ => rec_pkt c' v cur
    | _, _ => None
    end.
  Fixpoint pack_rep (e : elem) (al : Z) (vs : list value) (cur : Z) : pres :=
    match vs with [] => Some (cur, []) | v :: r =>
      match pack_elem e v (align al cur) with None => None | Some (c1, t1) =>
      match pack_rep e al r c1 with None => None | Some (c2, t2) => Some (c2, t1 ++ t2) end end end.
  Definition pack_field (f : field) (v : value) (cur ipp : Z) : pres :=
    match f, v with
    | FElem e, _ => pack_elem e v cur
    | FSeq e _ al, VList vs => pack_rep e al vs cur
    | FAt p r, _ => Some (move p r cur ipp, [])
    | _, _ => None
    end.
  Fixpoint pack_fields (fs : list field) (vs : list value) (cur ipp : Z) : pres :=
    match fs, vs with
    | [], [] => Some (cur, [])
    | f :: r, v :: vr =>
      match pack_field f v cur ipp with None => None | Some (c1, t1) =>
      match pack_fields r vr c1 ipp with None => None | Some (c2, t2) => Some (c2, t1 ++ t2) end end
    | _, _ => None
    end.
End Pack.

Fixpoint pack_pkt (fuel : nat) (ct : ctab) (c : nat) (v : value) (cur : Z) : pres :=
  match fuel with O => None | S fuel =>
    match v with VPkt vs => pack_fields (pack_pkt fuel ct) (ct c) vs cur cur | _ => None end end.

(* ---- round trip: pack's inserts are unpack's consumed chunks shifted by base ---- *)
Definition shift (base : Z) (t : list chunk) : list chunk := map (fun '(p, b) => (p - base, b)) t.
Lemma shift_app base a b : shift base (a ++ b) = shift base a ++ shift base b.
Proof. apply map_app. Qed.

Definition no_begins (f : field) := match f with FAt _ RBegins => False | _ => True end.
Definition al_ok (base : Z) (f : field) := match f with FSeq _ _ al => al > 0 /\ (base mod al = 0) | _ => True end.

Lemma align_shift al base off : al > 0 -> base mod al = 0 -> align al (off - base) = align al off - base.
Proof.
  intros Hal Hb. unfold align.
  assert (E : (off - base) mod al = off mod al).
  { rewrite Zminus_mod, Hb, Z.sub_0_r, Z.mod_mod by lia. reflexivity. }
  rewrite E. lia.
Qed.

Definition rt_pkt (base : Z)
  (U : nat -> Z -> res) (P : nat -> value -> Z -> pres) :=
  forall c off v off' t, U c off = Some (v, off', t) ->
    (exists vs, v = VPkt vs) /\ P c v (off - base) = Some (off' - base, shift base t).

Section RT.
  Variables (raw : bytes) (base : Z).
  Variables (U : nat -> Z -> res) (P : nat -> value -> Z -> pres).
  Hypothesis HUP : rt_pkt base U P.

  Lemma rt_elem e off v off' t : unpack_elem raw U e off = Some (v, off', t) ->
    pack_elem P e v (off - base) = Some (off' - base, shift base t).
  Proof.
    destruct e as [n|c']; cbn [unpack_elem pack_elem].
    - destruct (_ && _) eqn:G; [|discriminate]. intros [= <- <- <-].
      apply andb_prop in G as [G1 G3]. apply Z.eqb_eq in G3. rewrite G3. cbn. f_equal. f_equal. lia.
    - intros H. destruct (HUP _ _ _ _ _ H) as [[vs ->] H']. exact H'.
  Qed.

  Lemma rt_rep e al k : al > 0 -> base mod al = 0 -> forall off vs off' t,
    unpack_rep raw U e al k off = Some (vs, off', t) ->
    pack_rep P e al vs (off - base) = Some (off' - base, shift base t).
  Proof.
    intros Hal Hb. induction k as [|k IH]; intros off vs off' t; cbn [unpack_rep].
    - intros [= <- <- <-]. reflexivity.
    - destruct (unpack_elem raw U e (align al off)) as [[[v o1] t1]|] eqn:E1; [|discriminate].
      destruct (unpack_rep raw U e al k o1) as [[[vr o2] t2]|] eqn:E2; [|discriminate].
      intros [= <- <- <-]. cbn [pack_rep].
      rewrite align_shift by assumption. rewrite (rt_elem _ _ _ _ _ E1), (IH _ _ _ _ E2), shift_app. reflexivity.
  Qed.

  Lemma rt_field f off ipp v off' t : no_begins f \/ base = 0 -> al_ok base f ->
    unpack_field raw U f off ipp = Some (v, off', t) ->
    pack_field P f v (off - base) (ipp - base) = Some (off' - base, shift base t).
  Proof.
    intros Hnb Hal. destruct f as [e|e k al|p r]; cbn [unpack_field pack_field].
    - apply rt_elem.
    - destruct Hal as [Hal Hb].
      destruct (unpack_rep raw U e al k off) as [[[vs o] t']|] eqn:E; [|discriminate].
      intros [= <- <- <-]. eapply rt_rep; eauto.
    - intros [= <- <- <-]. cbn. f_equal. f_equal.
      destruct r; cbn [move no_begins] in *; lia.
  Qed.

  Lemma rt_fields fs : Forall (fun f => no_begins f \/ base = 0) fs -> Forall (al_ok base) fs ->
    forall off ipp vs off' t,
    unpack_fields raw U fs off ipp = Some (vs, off', t) ->
    pack_fields P fs vs (off - base) (ipp - base) = Some (off' - base, shift base t).
  Proof.
    induction fs as [|f r IH]; intros H1 H2 off ipp vs off' t; cbn [unpack_fields].
    - intros [= <- <- <-]. reflexivity.
    - inversion H1 as [|? ? H1a H1b]; inversion H2 as [|? ? H2a H2b]; subst.
      destruct (unpack_field raw U f off ipp) as [[[v o1] t1]|] eqn:E1; [|discriminate].
      destruct (unpack_fields raw U r o1 ipp) as [[[vr o2] t2]|] eqn:E2; [|discriminate].
      intros [= <- <- <-]. cbn [pack_fields].
      rewrite (rt_field _ _ _ _ _ _ H1a H2a E1), (IH H1b H2b _ _ _ _ _ E2), shift_app. reflexivity.
  Qed.
End RT.

Definition wf_ct (base : Z) (ct : ctab) := forall c,
  Forall (fun f => no_begins f \/ base = 0) (ct c) /\ Forall (al_ok base) (ct c).

Theorem roundtrip_trace ct raw base : wf_ct base ct -> forall fuel,
  rt_pkt base (unpack_pkt fuel ct raw) (pack_pkt fuel ct).
Proof.
  intros Hwf. induction fuel as [|fuel IH]; intros c off v off' t; cbn [unpack_pkt pack_pkt].
  - discriminate.
  - destruct (unpack_fields raw (unpack_pkt fuel ct raw) (ct c) off off) as [[[vs o] t']|] eqn:E; [|discriminate].
    intros [= <- <- <-]. split; [eauto|].
    destruct (Hwf c) as [H1 H2].
    exact (rt_fields raw base _ _ IH (ct c) H1 H2 _ _ _ _ _ E).
Qed.
Print Assumptions roundtrip_trace.
