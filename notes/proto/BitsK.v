From Coq Require Import ZArith List Bool Lia.
Open Scope Z_scope.

Definition mask_of (w s : Z) : Z := Z.shiftl (2 ^ w - 1) s.
Definition bits_get (I w s : Z) : Z := Z.shiftr (Z.land I (mask_of w s)) s.
Definition bits_put (I v w s : Z) : Z :=
  Z.lor (Z.land (Z.shiftl v s) (mask_of w s)) (Z.land I (Z.lnot (mask_of w s))).

Lemma ones_testbit w i : 0 <= w -> 0 <= i -> Z.testbit (2 ^ w - 1) i = (i <? w).
Proof.
  intros Hw Hi. replace (2 ^ w - 1) with (Z.ones w) by (rewrite Z.ones_equiv; lia).
  destruct (Z.ltb_spec i w).
  - apply Z.ones_spec_low; lia.
  - apply Z.ones_spec_high; lia.
Qed.

Lemma mask_testbit w s i : 0 <= w -> 0 <= s -> 0 <= i ->
  Z.testbit (mask_of w s) i = (s <=? i) && (i <? s + w).
Proof.
  intros Hw Hs Hi. unfold mask_of. rewrite Z.shiftl_spec by lia.
  destruct (Z.leb_spec s i).
  - rewrite ones_testbit by lia. cbn. destruct (Z.ltb_spec (i - s) w), (Z.ltb_spec i (s + w)); lia || reflexivity.
  - rewrite Z.testbit_neg_r by lia. reflexivity.
Qed.

Lemma put_testbit I v w s i : 0 <= w -> 0 <= s -> 0 <= i ->
  Z.testbit (bits_put I v w s) i =
  if (s <=? i) && (i <? s + w) then Z.testbit v (i - s) else Z.testbit I i.
Proof.
  intros Hw Hs Hi. unfold bits_put.
  rewrite Z.lor_spec, !Z.land_spec, Z.lnot_spec, mask_testbit, Z.shiftl_spec by lia.
  destruct ((s <=? i) && (i <? s + w)); cbn; rewrite ?andb_true_r, ?andb_false_r, ?orb_false_r; reflexivity.
Qed.

Lemma get_testbit I w s i : 0 <= w -> 0 <= s -> 0 <= i ->
  Z.testbit (bits_get I w s) i = (i <? w) && Z.testbit I (i + s).
Proof.
  intros Hw Hs Hi. unfold bits_get. rewrite Z.shiftr_spec, Z.land_spec, mask_testbit by lia.
  destruct (Z.leb_spec s (i + s)); try lia. cbn.
  destruct (Z.ltb_spec (i + s) (s + w)), (Z.ltb_spec i w); try lia; cbn; rewrite ?andb_true_r, ?andb_false_r; reflexivity.
Qed.

(* get after put on the same slice returns v mod 2^w; on a disjoint slice returns the old value *)
Lemma get_put_same I v w s : 0 <= w -> 0 <= s -> bits_get (bits_put I v w s) w s = v mod 2 ^ w.
Proof.
  intros Hw Hs. apply Z.bits_inj'. intros i Hi.
  rewrite get_testbit, put_testbit by lia.
  destruct (Z.ltb_spec i w).
  - rewrite Z.mod_pow2_bits_low by lia.
    destruct (Z.leb_spec s (i + s)), (Z.ltb_spec (i + s) (s + w)); try lia. cbn. f_equal. lia.
  - rewrite Z.mod_pow2_bits_high by lia. reflexivity.
Qed.

Lemma get_put_other I v w s w' s' : 0 <= w -> 0 <= s -> 0 <= w' -> 0 <= s' ->
  s' + w' <= s \/ s + w <= s' ->
  bits_get (bits_put I v w s) w' s' = bits_get I w' s'.
Proof.
  intros Hw Hs Hw' Hs' Hd. apply Z.bits_inj'. intros i Hi.
  rewrite !get_testbit, put_testbit by lia.
  destruct (Z.ltb_spec i w'); cbn; [|reflexivity].
  destruct (Z.leb_spec s (i + s')), (Z.ltb_spec (i + s') (s + w)); cbn; try reflexivity; lia.
Qed.
