From Coq Require Import ZArith List Bool Lia.
Import ListNotations.
Open Scope Z_scope.

Definition bytes := list Z.
Definition blen (b : bytes) : Z := Z.of_nat (length b).

(* The dict `fragments` together with `sorted(items())` is modelled as an association list kept sorted by
   key with distinct keys.  `begins` is the python list begin_of_fragments. *)
Record frs := { frags : list (Z * bytes); begins : list Z; cur : Z }.
Definition empty : frs := {| frags := []; begins := []; cur := 0 |}.

Fixpoint dict_set (d : list (Z * bytes)) (k : Z) (v : bytes) : list (Z * bytes) :=
  match d with
  | [] => [(k, v)]
  | (k', v') :: r => if k <? k' then (k, v) :: d else if k =? k' then (k, v) :: r else (k', v') :: dict_set r k v
  end.
Fixpoint dict_get (d : list (Z * bytes)) (k : Z) : option bytes :=
  match d with [] => None | (k', v') :: r => if k =? k' then Some v' else dict_get r k end.

(* bisect_right on a sorted list = number of elements <= x *)
Fixpoint bisect_right (l : list Z) (x : Z) : Z :=
  match l with [] => 0 | b :: r => if b <=? x then 1 + bisect_right r x else 0 end.
Definition py_nth (l : list Z) (i : Z) : option Z :=     (* python indexing, negative from the end *)
  let n := Z.of_nat (length l) in
  let j := if i <? 0 then i + n else i in
  if (0 <=? j) && (j <? n) then nth_error l (Z.to_nat j) else None.
Fixpoint list_insert (l : list Z) (i : nat) (x : Z) : list Z :=
  match i, l with O, _ => x :: l | S i, [] => [x] | S i, a :: r => a :: list_insert r i x end.

Inductive res := Ok (s : frs) | Collision | Crash.

(* Fragments.insert, the code as it is today (quirk on) *)
Definition insert (s : frs) (position : Z) (str : bytes) : res :=
  let i := bisect_right (begins s) position - 1 in
  let L := blen str in
  let chk :=
    match frags s with
    | [] => Some false
    | _ =>
      match py_nth (begins s) i with None => None | Some b1 =>
      match dict_get (frags s) b1 with None => None | Some s1 =>
        let e1 := b1 + blen s1 in
        if (b1 <=? position) && (position <? e1) then Some true
        else if i + 1 <? Z.of_nat (length (begins s)) then
          match py_nth (begins s) (i + 1) with None => None | Some b2 => Some (b2 <? position + L) end
        else Some false
      end end
    end in
  match chk with
  | None => Crash
  | Some true => Collision
  | Some false =>
      Ok {| frags := dict_set (frags s) position str;
            begins := list_insert (begins s) (Z.to_nat (i + 1)) position;
            cur := position + L |}
  end.

Fixpoint walk (fill : Z) (begin : Z) (d : list (Z * bytes)) : bytes :=
  match d with [] => [] | (o, s) :: r => repeat fill (Z.to_nat (o - begin)) ++ s ++ walk fill (o + blen s) r end.
Definition tobytes (s : frs) : bytes := walk 46 0 (frags s).

(* quick sanity: the documentation example and the D3 witness *)
Definition ins' (r : res) p b := match r with Ok s => insert s p b | x => x end.
Example doc_example :
  match ins' (ins' (ins' (Ok empty) 0 [65;65;65]) 16 [69;69;69]) 12 [88;88;88] with
  | Ok s => tobytes s = [65;65;65;46;46;46;46;46;46;46;46;46;88;88;88;46;69;69;69] | _ => False end.
Proof. vm_compute. reflexivity. Qed.
Example d3_witness : ins' (ins' (ins' (Ok empty) 0 [97]) 5 []) 2 [1;2;3;4] = Collision.
Proof. vm_compute. reflexivity. Qed.

(* ---- abstraction ---- *)
Definition cell (d : list (Z * bytes)) (p : Z) : option Z :=
  (fix go d := match d with [] => None | (o, s) :: r =>
     if (o <=? p) && (p <? o + blen s) then nth_error s (Z.to_nat (p - o)) else go r end) d.
Definition occupied d p := cell d p <> None.

(* Invariant: keys strictly increasing and fragments do not overlap: o1 + len1 <= o2 for consecutive;
   begins = keys (as multiset, sorted) -- in the faithful model begins may hold a duplicate when a
   non-empty chunk replaced an empty one at the same position, so we only require:
   sorted, and same set of elements as keys. *)
Fixpoint sep (d : list (Z * bytes)) : Prop :=
  match d with [] => True | (o, s) :: r => match r with [] => True | (o', _) :: _ => o + blen s <= o' /\ o < o' end /\ sep r end.
Fixpoint sortedZ (l : list Z) : Prop :=
  match l with [] => True | a :: r => match r with [] => True | b :: _ => a <= b end /\ sortedZ r end.
Definition Inv (s : frs) : Prop :=
  sep (frags s) /\ sortedZ (begins s) /\ (forall k, In k (begins s) <-> In k (map fst (frags s))).

Lemma inv_empty : Inv empty.
Proof. repeat split; cbn; tauto. Qed.
