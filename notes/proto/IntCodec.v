From Coq Require Import ZArith List Bool Lia ZifyBool.
Import ListNotations.
Open Scope Z_scope.
Ltac Zify.zify_post_hook ::= Z.to_euclidean_division_equations.

Definition bytes := list Z.
Definition wf_byte (b : Z) := 0 <= b < 256.
Definition wf_bytes (bs : bytes) := Forall wf_byte bs.

(* big-endian unsigned value *)
Fixpoint be_val (acc : Z) (bs : bytes) : Z :=
  match bs with [] => acc | b :: r => be_val (acc * 256 + b) r end.

Fixpoint be_enc (n : nat) (v : Z) : bytes :=   (* n bytes, big endian, of v mod 256^n *)
  match n with O => [] | S k => be_enc k (v / 256) ++ [v mod 256] end.

Lemma be_val_app acc a b : be_val acc (a ++ b) = be_val (be_val acc a) b.
Proof. revert acc; induction a as [|x a IH]; intros acc; cbn [be_val app]; auto. Qed.

Lemma be_enc_len n v : length (be_enc n v) = n.
Proof. revert v; induction n as [|n IH]; intros v; cbn [be_enc]; auto. rewrite app_length, IH; cbn; lia. Qed.

Lemma be_val_acc acc bs : be_val acc bs = acc * 256 ^ Z.of_nat (length bs) + be_val 0 bs.
Proof.
  revert acc; induction bs as [|b r IH]; intros acc.
  - cbn. lia.
  - cbn [be_val length]. rewrite IH. rewrite (IH (0*256+b)).
    rewrite Nat2Z.inj_succ, Z.pow_succ_r by lia. lia.
Qed.

Lemma be_val_enc n v : 0 <= v < 256 ^ Z.of_nat n -> be_val 0 (be_enc n v) = v.
Proof.
  revert v; induction n as [|n IH]; intros v Hv.
  - cbn in *. lia.
  - cbn [be_enc]. rewrite be_val_app. cbn [be_val].
    rewrite IH.
    + pose proof (Z.div_mod v 256). lia.
    + rewrite Nat2Z.inj_succ, Z.pow_succ_r in Hv by lia.
      split. apply Z.div_pos; lia. apply Z.div_lt_upper_bound; lia.
Qed.

Lemma be_val_bound bs : wf_bytes bs -> 0 <= be_val 0 bs < 256 ^ Z.of_nat (length bs).
Proof.
  induction bs as [|b r IH] using rev_ind; intros H.
  - cbn. lia.
  - apply Forall_app in H as [Hr Hb]. inversion Hb as [|? ? Hb1 _]; subst. unfold wf_byte in Hb1.
    rewrite be_val_app. cbn [be_val]. rewrite app_length. cbn [length].
    replace (Z.of_nat (length r + 1)) with (Z.succ (Z.of_nat (length r))) by lia.
    rewrite Z.pow_succ_r by lia. specialize (IH Hr). lia.
Qed.

Lemma be_enc_val bs : wf_bytes bs -> be_enc (length bs) (be_val 0 bs) = bs.
Proof.
  induction bs as [|b r IH] using rev_ind; intros H.
  - reflexivity.
  - apply Forall_app in H as [Hr Hb]. inversion Hb as [|? ? Hb1 _]; subst. unfold wf_byte in Hb1.
    rewrite app_length. cbn [length]. replace (length r + 1)%nat with (S (length r)) by lia.
    cbn [be_enc]. rewrite be_val_app. cbn [be_val].
    replace ((be_val 0 r * 256 + b) / 256) with (be_val 0 r).
    2:{ symmetry. rewrite Z.div_add_l by lia. rewrite (Z.div_small b 256) by lia. lia. }
    rewrite IH by assumption.
    f_equal. f_equal. rewrite Z.add_comm, Z.mod_add by lia. apply Z.mod_small; lia.
Qed.
