From Coq Require Import ZArith List Bool Lia.
From Bisturi Require Import Base.Bytes Kernel.IntCodec Kernel.Align Kernel.BitsK Kernel.DataK Kernel.Frag
  Model.Value Model.Decl Model.Unpack Model.Pack Model.Init Model.Codegen Model.Wf Model.Wf3 Proofs.FragProofs.
Import ListNotations. Open Scope Z_scope.

Definition same_content (a b : frs) : Prop := frags a = frags b /\ begins a = begins b.
(* insert every consumed chunk, in order, at its position relative to `base` *)
Fixpoint ins_trace (base : Z) (t : trace) (fr : frs) : Frag.res :=
  match t with
  | [] => Frag.Ok fr
  | TChunk p b :: r => match insert fr (p - base) b with Frag.Ok fr' => ins_trace base r fr' | x => x end
  | _ :: r => ins_trace base r fr
  end.
(* the parse never went before `base` *)
Definition trace_from (base : Z) (t : trace) : Prop :=
  Forall (fun x => match x with TChunk p _ => base <= p | TMove p => base <= p | TDelim _ _ _ => True end) t.

Theorem roundtrip_trace : forall fuel host dl ct raw c off base v e t fr,
  ct_rt base ct = true -> 0 <= base <= off -> cur fr = off - base ->
  unpack_pkt fuel host ct raw c off = POk v e t -> trace_from base t ->
  exists s, v = VPkt c s /\
    match ins_trace base t fr with
    | Frag.Ok fr1 => exists v' fr2, pack_pkt fuel host dl ct c s fr = QOk v' fr2 /\ same_content fr2 fr1 /\ cur fr2 = e - base
    | _ => exists st, pack_pkt fuel host dl ct c s fr = QFail st
    end.
Admitted.

Definition chunk_ops (base : Z) (t : trace) : list op :=
  flat_map (fun x => match x with TChunk p b => [OInsert (p - base) b] | _ => [] end) t.
(* Packet.pack() of a parsed packet = the sparse array holding every consumed chunk at its position relative
   to the start offset, '.' elsewhere; PacketError exactly when two chunks overlap *)
Theorem roundtrip_bytes : forall fuel host dl ct raw c off s e t,
  ct_rt off ct = true -> 0 <= off ->
  unpack_pkt fuel host ct raw c off = POk (VPkt c s) e t -> trace_from off t ->
  match fold_a aempty (chunk_ops off t) with
  | Some a => exists v', pack_top fuel host dl ct c s = PBytes (a_tobytes a) v'
  | None => exists st, pack_top fuel host dl ct c s = PErr st
  end.
Admitted.
