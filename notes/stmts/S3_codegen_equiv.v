From Coq Require Import ZArith List Bool Lia.
From Bisturi Require Import Base.Bytes Kernel.IntCodec Kernel.Align Kernel.BitsK Kernel.DataK Kernel.Frag
  Model.Value Model.Decl Model.Unpack Model.Pack Model.Init Model.Codegen Model.Wf Model.Wf2 Proofs.FragProofs.
Import ListNotations. Open Scope Z_scope.

(* two class tables with the same declarations, possibly different code-generation options *)
Definition same_decls (ct ct' : ctab) : Prop :=
  Forall2 (fun a b => fst a = fst b /\ cc_conf (snd a) = cc_conf (snd b) /\ cc_fields (snd a) = cc_fields (snd b)) ct ct'.

Definition pres_equiv (a b : pres) : Prop :=
  match a, b with
  | POk v e t, POk v' e' t' => v = v' /\ e = e' /\ t = t'
  | PFail _, PFail _ => True
  | PFuel, PFuel => True
  | _, _ => False
  end.
Theorem unpack_codegen_equiv : forall fuel host ct ct' raw c off,
  same_decls ct ct' -> ct_sizes_ok ct = true -> 0 <= off ->
  pres_equiv (unpack_any fuel host ct raw c off) (unpack_any fuel host ct' raw c off).
Admitted.
(* in particular the generated code agrees with the generic field loop of Model/Unpack.v *)
Theorem unpack_any_generic : forall fuel host ct raw c off,
  ct_sizes_ok ct = true -> 0 <= off ->
  pres_equiv (unpack_any fuel host ct raw c off) (unpack_pkt fuel host ct raw c off).
Admitted.

(* two buffers with the same content *)
Definition feq (a b : frs) : Prop :=
  (forall q, cell (frags a) q = cell (frags b) q) /\ extent (frags a) = extent (frags b) /\ cur a = cur b.
Definition good (a : frs) : Prop := Inv a /\ NonNeg a /\ 0 <= cur a.
Definition qres_equiv (a b : qres) : Prop :=
  match a, b with
  | QOk v fr, QOk v' fr' => v = v' /\ feq fr fr' /\ good fr /\ good fr'
  | QFail _, QFail _ => True
  | QFuel, QFuel => True
  | _, _ => False
  end.
Theorem pack_codegen_equiv : forall fuel host dl ct ct' c s fr fr',
  same_decls ct ct' -> ct_wf ct = true -> ct_sizes_ok ct = true -> lens_ok fuel ct (VPkt c s) = true ->
  good fr -> good fr' -> feq fr fr' ->
  qres_equiv (pack_any fuel host dl ct c s fr) (pack_any fuel host dl ct' c s fr').
Admitted.
Theorem feq_tobytes : forall a b, good a -> good b -> feq a b -> tobytes a = tobytes b.
Admitted.
(* Packet.pack(): same bytes or both fail, whatever the four options are *)
Theorem pack_top_codegen_equiv : forall fuel host dl ct ct' c s,
  same_decls ct ct' -> ct_wf ct = true -> ct_sizes_ok ct = true -> lens_ok fuel ct (VPkt c s) = true ->
  match pack_any_top fuel host dl ct c s, pack_any_top fuel host dl ct' c s with
  | PBytes b v, PBytes b' v' => b = b' /\ v = v'
  | PErr _, PErr _ => True
  | PNoFuel, PNoFuel => True
  | _, _ => False
  end.
Admitted.
