(* Statements for Proofs/HeapProofs.v (C13, aliasing): separation of live packets over all histories *)
From Coq Require Import ZArith List Bool Lia.
From Bisturi Require Import Base.Bytes Model.Value Model.Decl Model.Unpack Model.Pack Model.Init Model.Codegen Model.Canon Model.Heap.
Import ListNotations. Open Scope Z_scope.

(* every cell lives below `next`; every reference inside a cell, and every live packet, points to a cell *)
Definition h_valid (h : heap) : Prop :=
  0 <= next h /\ (forall a o, h_get h a = Some o -> 0 <= a < next h) /\
  (forall a x b, child h a x -> x = HRef b -> exists o, h_get h b = Some o).
Definition w_valid (w : world) : Prop :=
  h_valid (hp w) /\ (forall r a, root_get (roots w) r = Some a -> exists o, h_get (hp w) a = Some o) /\
  (forall s, In s (shared w) -> exists o, h_get (hp w) s = Some o).

(* two live packets have in common only what hangs below an object the user put in two places *)
Definition separated (w : world) : Prop :=
  forall r1 r2 a1 a2 b, r1 <> r2 -> root_get (roots w) r1 = Some a1 -> root_get (roots w) r2 = Some a2 ->
    reach (hp w) (HRef a1) b -> reach (hp w) (HRef a2) b ->
    exists s, In s (shared w) /\ reach (hp w) (HRef s) b.

(* (1) allocation of a tree: only fresh cells, nothing old is touched *)
Theorem alloc_tree_fresh : forall v h x h',
  h_valid h -> alloc_tree v h = (x, h') ->
  h_valid h' /\ next h <= next h' /\
  (forall a, a < next h -> h_get h' a = h_get h a) /\
  (forall b, reach h' x b -> next h <= b < next h').
Admitted.
(* ... and it denotes the tree it was made from *)
Theorem alloc_tree_read : forall v h x h',
  h_valid h -> alloc_tree v h = (x, h') -> exists k, forall n, (k <= n)%nat -> read_tree n h' x = Some v.
Admitted.

(* (2) every operation keeps the world well formed and separated; `shared` only grows, and only when the user hands over an
   object taken from a live packet *)
Theorem w_step_valid : forall host ct w o w', w_valid w -> w_step host ct w o = Some w' -> w_valid w'.
Admitted.
Theorem w_step_separated : forall host ct w o w',
  w_valid w -> separated w -> w_step host ct w o = Some w' -> separated w'.
Admitted.
Definition op_no_share (o : wop) : bool :=
  match o with WSet _ _ _ (SrcObj _ _) | WAppend _ _ (SrcObj _ _) => false | _ => true end.
Theorem w_step_shared : forall host ct w o w',
  op_no_share o = true -> w_step host ct w o = Some w' -> shared w' = shared w.
Admitted.
(* for every history from the empty world *)
Theorem history_separated : forall host ct ops,
  let w := fold_left (w_run1 host ct) ops w_empty in w_valid w /\ separated w.
Admitted.
(* a history in which the user never hands over an object of a live packet: no two live packets have anything in common *)
Theorem history_disjoint : forall host ct ops,
  forallb op_no_share ops = true ->
  let w := fold_left (w_run1 host ct) ops w_empty in
  forall r1 r2 a1 a2 b, r1 <> r2 -> root_get (roots w) r1 = Some a1 -> root_get (roots w) r2 = Some a2 ->
    reach (hp w) (HRef a1) b -> reach (hp w) (HRef a2) b -> False.
Admitted.

(* (3) an operation on one packet changes another packet only through an object the user put in both:
   if no shared object hangs above the cell that is written, every other live packet denotes the same tree as before *)
Definition written_cell (w : world) (o : wop) : option addr :=
  match o with
  | WSet r p _ _ | WAppend r p _ =>
      match root_get (roots w) r with
      | Some a => match path_get (hp w) (HRef a) p with Some (HRef b) => Some b | _ => None end
      | None => None
      end
  | _ => None
  end.
Theorem step_local : forall host ct w o w' r2 a2 fuel,
  w_valid w -> w_step host ct w o = Some w' ->
  root_get (roots w) r2 = Some a2 ->
  (match o with WNew r _ | WParse r _ _ _ | WReparse r _ => r <> r2 | _ => True end) ->
  (forall b, written_cell w o = Some b -> ~ reach (hp w) (HRef a2) b) ->
  root_get (roots w') r2 = Some a2 /\ read_tree fuel (hp w') (HRef a2) = read_tree fuel (hp w) (HRef a2).
Admitted.
(* with separation: writing into packet r (not below a shared object) leaves every other live packet as it was *)
Theorem set_changes_only_its_packet : forall host ct w r p last x w' r2 a2 b fuel,
  w_valid w -> separated w -> w_step host ct w (WSet r p last x) = Some w' ->
  r2 <> r -> root_get (roots w) r2 = Some a2 ->
  written_cell w (WSet r p last x) = Some b ->
  (forall s, In s (shared w) -> ~ reach (hp w) (HRef s) b) ->
  read_tree fuel (hp w') (HRef a2) = read_tree fuel (hp w) (HRef a2).
Admitted.
(* (4) serializing writes no cell *)
Theorem pack_writes_nothing : forall host ct w r w', w_step host ct w (WPack r) = Some w' -> w' = w.
Admitted.
