(* Statements for Proofs/HeapAdequacy.v: without user sharing the object world and the value world coincide *)
From Coq Require Import ZArith List Bool Lia.
From Bisturi Require Import Base.Bytes Model.Value Model.Decl Model.Unpack Model.Pack Model.Init Model.Codegen Model.Canon Model.Heap Model.HeapSpec
                            Proofs.HeapProofs.
Import ListNotations. Open Scope Z_scope.

(* ---- sanity example ---- *)
Definition ad_ops : list wop :=
  [WNew 1 (VPkt 1 [(FN 0, VList [VInt 1; VInt 2]); (FN 1, VPkt 2 [(FN 0, VInt 5)])]);
   WNew 2 (VPkt 1 [(FN 0, VList []); (FN 1, VNone)]);
   WSet 1 [SField (FN 1)] (SField (FN 0)) (SrcLit (VInt 9));
   WAppend 1 [SField (FN 0)] (SrcLit (VList [VInt 7]));
   WSet 1 [SField (FN 0)] (SIndex 0) (SrcLit (VBytes [65]));
   WSet 2 [] (SField (FN 1)) (SrcLit (VPkt 2 [(FN 0, VInt 6)]));
   WSet 2 [SField (FN 0)] (SIndex 3) (SrcLit (VInt 0));       (* raises: index out of range *)
   WSet 1 [SField (FN 0); SIndex 2] (SIndex 0) (SrcLit (VInt 8))].
Definition ad_w := fold_left (w_run1 true []) ad_ops w_empty.
Definition ad_fw := fold_left (f_run1 true []) ad_ops [].
Eval vm_compute in (map (fun r => match root_get (roots ad_w) r with Some a => read_tree 10 (hp ad_w) (HRef a) | None => None end) [1; 2]).
Eval vm_compute in (map (fw_get ad_fw) [1; 2]).
Eval vm_compute in (map (fun o => match w_step true [] w_empty o with Some _ => 1 | None => 0 end) ad_ops).

(* the two worlds show the same thing: the same names are live, and every live packet denotes the tree the value world holds *)
Definition agrees (w : world) (fw : fworld) : Prop :=
  (forall r, root_get (roots w) r = None <-> fw_get fw r = None) /\
  (forall r a, root_get (roots w) r = Some a ->
     exists t, fw_get fw r = Some t /\ forall n, (vdepth t <= n)%nat -> read_tree n (hp w) (HRef a) = Some t).

(* read_tree needs exactly the depth of the tree as fuel *)
Theorem read_tree_depth : forall n h x t, read_tree n h x = Some t -> (vdepth t <= n)%nat.
Admitted.

(* one operation (the user hands over no object of a live packet): both worlds raise, or both go on and still agree *)
Theorem adequacy_step : forall host ct w fw o,
  w_valid w -> tree_like w -> shared w = [] -> agrees w fw -> op_no_share o = true ->
  match w_step host ct w o, f_step host ct fw o with
  | Some w', Some fw' => agrees w' fw'
  | None, None => True
  | _, _ => False
  end.
Admitted.

(* every history without user sharing, from the empty worlds *)
Theorem adequacy_history : forall host ct ops,
  forallb op_no_share ops = true ->
  agrees (fold_left (w_run1 host ct) ops w_empty) (fold_left (f_run1 host ct) ops []).
Admitted.

(* corollary: what serializing a live packet returns is what the value model says about its tree *)
Theorem adequacy_pack : forall host ct ops r a,
  forallb op_no_share ops = true ->
  let w := fold_left (w_run1 host ct) ops w_empty in
  let fw := fold_left (f_run1 host ct) ops [] in
  root_get (roots w) r = Some a ->
  exists t, fw_get fw r = Some t /\ ((vdepth t <= RFUEL)%nat -> read_tree RFUEL (hp w) (HRef a) = Some t).
Admitted.
