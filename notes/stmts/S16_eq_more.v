(* Proofs/EqMore.v -- C20, the rest of "structural and total": == is symmetric and transitive, and two packets parsed from
   the same bytes compare equal (the parse yields values == is reflexive on). *)
From Coq Require Import ZArith List Bool Lia.
From Bisturi Require Import Base.Bytes Model.Value Model.Decl Model.Unpack Model.Pack Model.Init Model.Codegen Model.Wf Proofs.EqProofs.
Import ListNotations.
Open Scope Z_scope.

Theorem pkt_eqb_sym : forall fuel ct a b, pkt_eqb fuel ct a b = pkt_eqb fuel ct b a.
Admitted.
Theorem pkt_eqb_trans : forall fuel ct a b c,
  pkt_eqb fuel ct a b = true -> pkt_eqb fuel ct b c = true -> pkt_eqb fuel ct a c = true.
Admitted.
(* more fuel never changes a comparison that came out true *)
Theorem pkt_eqb_fuel : forall fuel ct a b, pkt_eqb fuel ct a b = true -> pkt_eqb (S fuel) ct a b = true.
Admitted.
Theorem plain_fuel : forall fuel ct v, plain fuel ct v = true -> plain (S fuel) ct v = true.
Admitted.

(* TO BE COMPLETED BY THE PROVER: a boolean side condition on the class table saying that every default value a parse can
   hand out (absent optional fields, when-false sequences, ...) is itself plain.  Name it ct_plain_defaults. *)
(* Definition ct_plain_defaults (ct : ctab) : bool := ... *)

(* the parse yields plain values ... *)
(* Theorem parsed_plain : forall fuel host ct raw c off v e t,
     ct_plain_defaults ct = true -> unpack_any fuel host ct raw c off = POk v e t -> exists k, plain k ct v = true. *)
(* ... so two packets parsed from the same bytes compare equal, in both directions, and != is false *)
(* Theorem parsed_twice_equal : forall f1 f2 host ct raw c off v1 e1 t1 v2 e2 t2,
     ct_plain_defaults ct = true ->
     unpack_any f1 host ct raw c off = POk v1 e1 t1 -> unpack_any f2 host ct raw c off = POk v2 e2 t2 ->
     exists k, forall k', (k <= k')%nat -> pkt_eqb k' ct v1 v2 = true /\ pkt_eqb k' ct v2 v1 = true /\ pkt_neb k' ct v1 v2 = false. *)
