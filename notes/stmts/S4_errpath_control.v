From Coq Require Import ZArith List Bool Lia.
From Bisturi Require Import Base.Bytes Kernel.IntCodec Kernel.Align Kernel.BitsK Kernel.DataK Kernel.Frag
  Model.Value Model.Decl Model.Unpack Model.Pack Model.Init Model.Codegen Model.Wf.
Import ListNotations. Open Scope Z_scope.

(* ================= ErrPath.v ================= *)
(* the generic field loop fails at the FIRST field that cannot be decoded, entered at the cursor the previous
   fields left; a plain exception gives a one-entry stack, a nested PacketError gets this field appended *)
Theorem unpack_fields_fail : forall host raw rec lf cf c fs s off ipp t st,
  unpack_fields host raw rec lf cf c fs s off ipp t = PFail st ->
  exists fs1 f fs2 s1 o1 t1,
    fs = fs1 ++ f :: fs2 /\
    unpack_fields host raw rec lf cf c fs1 s off ipp t = POk (VPkt c s1) o1 t1 /\
    ((exists x, unpack_field host raw rec lf cf c f s1 o1 ipp = FExn x /\ st = [(o1, cf_name f, c)]) \/
     (exists st', unpack_field host raw rec lf cf c f s1 o1 ipp = FFail st' /\ st = st' ++ [(o1, cf_name f, c)])).
Admitted.
(* a nested PacketError always comes from a nested packet parse (through Ref, a repeated or an optional Ref) *)
Theorem unpack_field_ffail : forall host raw rec lf cf c f s off ipp st',
  unpack_field host raw rec lf cf c f s off ipp = FFail st' -> exists c' o', rec c' o' = PFail st'.
Admitted.
(* the same for the generated code: the failing block, at the cursor where the block begins *)
Theorem unpack_blocks_fail : forall host raw rec lf cf c bs s off ipp t st,
  unpack_blocks host raw rec lf cf c bs s off ipp t = PFail st ->
  exists bs1 b bs2 s1 o1 t1,
    bs = bs1 ++ b :: bs2 /\
    unpack_blocks host raw rec lf cf c bs1 s off ipp t = POk (VPkt c s1) o1 t1 /\
    (st = [(o1, block_name b, c)] \/ exists st', st = st' ++ [(o1, block_name b, c)] /\ exists c' o', rec c' o' = PFail st').
Admitted.
(* shape of every error stack of a packet parse: non-empty, outermost entry of the class being parsed, one entry
   per nesting level *)
Inductive stack_of (c : cid) : stack -> Prop :=
| SO_leaf : forall o f, stack_of c [(o, f, c)]
| SO_nest : forall c' st o f, stack_of c' st -> stack_of c (st ++ [(o, f, c)]).
Theorem unpack_any_fail_shape : forall fuel host ct raw c off st,
  unpack_any fuel host ct raw c off = PFail st -> stack_of c st.
Admitted.
Theorem unpack_pkt_fail_shape : forall fuel host ct raw c off st,
  unpack_pkt fuel host ct raw c off = PFail st -> stack_of c st.
Admitted.
(* serializing: same decomposition; every entry carries the cursor at the moment of the failure *)
Theorem pack_fields_fail : forall host dl rec cf c fs s fr ipp st,
  pack_fields host dl rec cf c fs s fr ipp = QFail st ->
  exists fs1 f fs2 s1 fr1,
    fs = fs1 ++ f :: fs2 /\
    pack_fields host dl rec cf c fs1 s fr ipp = QOk (VPkt c s1) fr1 /\
    ((exists x at_cur, pack_field host dl rec cf c f s1 fr1 ipp = KExn x at_cur /\ st = [(at_cur, cf_name f, c)]) \/
     (exists st', pack_field host dl rec cf c f s1 fr1 ipp = KFail st' /\
                  st = st' ++ [(match st' with (o, _, _) :: _ => o | [] => cur fr1 end, cf_name f, c)])).
Admitted.
Definition same_offsets (st : stack) : Prop := forall e, In e st -> fst (fst e) = fst (fst (hd (0, FN 0, 0) st)).
Theorem pack_any_fail_shape : forall fuel host dl ct c s fr st,
  pack_any fuel host dl ct c s fr = QFail st -> stack_of c st /\ same_offsets st.
Admitted.

(* ================= Control.v ================= *)
Section Ctl.
Variable host : bool. Variable raw : bytes. Variable rec : cid -> Z -> pres. Variable lf : nat.
Let UF := unpack_field host raw rec lf.
Let UE := unpack_elem host raw rec.
(* a false when-condition (or a non-positive count with a when-condition): empty list, nothing consumed *)
Theorem seq_skipped : forall cf c i e count until w d al s off ipp n,
  (match count with Some ce => eval_int (mkctx raw (slot_set s (FN i) (VList [])) off) ce | None => Ok 1 end) = Ok n ->
  (n <= 0 \/ exists v, eval (mkctx raw (slot_set s (FN i) (VList [])) off) w = Ok v /\ truth v = false) ->
  UF cf c (CSeq i e count until (Some w) d al) s off ipp = FOk (slot_set s (FN i) (VList [])) off [].
Admitted.
(* a count: exactly max(count, 0) elements *)
Theorem seq_count_length : forall cf c i e ce w d al s off ipp s' o' t n,
  UF cf c (CSeq i e (Some ce) None w d al) s off ipp = FOk s' o' t ->
  eval_int (mkctx raw (slot_set s (FN i) (VList [])) off) ce = Ok n ->
  (match w with None => True | Some we => 0 < n /\ exists v, eval (mkctx raw (slot_set s (FN i) (VList [])) off) we = Ok v /\ truth v = true end) ->
  exists l, slot_get s' (FN i) = Some (VList l) /\ length l = Z.to_nat n.
Admitted.
(* until: the loop stops exactly when the condition, evaluated on the list built so far, is true *)
Theorem until_final : forall fuel cf c i e al u s off t s' o' t',
  unpack_until host raw rec fuel cf c i e al u s off t = FOk s' o' t' ->
  exists v, eval (mkctx raw s' o') u = Ok v /\ truth v = true.
Admitted.
Theorem until_stops_at_once : forall fuel cf c i e al u s off t v,
  eval (mkctx raw s off) u = Ok v -> truth v = true ->
  unpack_until host raw rec fuel cf c i e al u s off t = FOk s off t.
Admitted.
Theorem until_one_more : forall fuel cf c i e al u s off t v o1,
  eval (mkctx raw s off) u = Ok v -> truth v = false -> seq_align al off = Some o1 ->
  unpack_until host raw rec (S fuel) cf c i e al u s off t =
  match UE cf c (FSeqElem i) e s o1 with
  | FOk s1 o2 t1 => unpack_until host raw rec fuel cf c i e al u (append_to s1 (FN i) (elem_value s1 (FSeqElem i))) o2 (t ++ t1)
  | r => r
  end.
Admitted.
(* optional: parsed iff the condition is true; otherwise None, nothing consumed *)
Theorem opt_absent : forall cf c i e w d s off ipp v,
  eval (mkctx raw s off) w = Ok v -> truth v = false ->
  UF cf c (COpt i e w d) s off ipp = FOk (slot_set s (FN i) VNone) off [].
Admitted.
Theorem opt_present : forall cf c i e w d s off ipp v,
  eval (mkctx raw s off) w = Ok v -> truth v = true ->
  UF cf c (COpt i e w d) s off ipp =
  match UE cf c (FOptElem i) e s off with
  | FOk s1 o1 t1 => FOk (slot_set s1 (FN i) (elem_value s1 (FOptElem i))) o1 t1
  | r => r
  end.
Admitted.
(* a reference parses the nested packet at the current cursor and continues right after it *)
Theorem ref_spec : forall cf c name c' proto s off,
  UE cf c name (ERefPkt c' proto) s off =
  match rec c' off with POk v o' t => FOk (slot_set s name v) o' t | PFail st => FFail st | PFuel => FFuel end.
Admitted.
End Ctl.
(* an absent optional emits nothing when serializing *)
Theorem opt_pack_none : forall host dl rec cf c i e w d s fr ipp,
  slot_get s (FN i) = Some VNone -> pack_field host dl rec cf c (COpt i e w d) s fr ipp = KOk s fr.
Admitted.
