From Coq Require Import ZArith List Bool Lia.
From Bisturi Require Import Base.Bytes Kernel.IntCodec Kernel.Align Kernel.BitsK Kernel.DataK Kernel.Frag
  Model.Value Model.Decl Model.Unpack Model.Pack Model.Init Model.Codegen Model.Wf.
Import ListNotations. Open Scope Z_scope.

(* ================= InitProofs.v (C19) ================= *)
(* the declared defaults, per field kind *)
Theorem default_int : forall n s fe d, leaf_default (LInt n s fe d) = d.
Admitted.
Theorem default_data_fixed_nul : forall n, leaf_default (LDataSized (ELit (VInt n)) true (VBytes [])) = VBytes (repeat 0 (Z.to_nat n)).
Admitted.
Theorem default_data_given : forall size c b x, leaf_default (LDataSized size c (VBytes (x :: b))) = VBytes (x :: b).
Admitted.
Theorem default_data_variable : forall size d, leaf_default (LDataSized size false d) = d.
Admitted.

Definition cf_index (f : cfield) : Z :=
  match f with CMove i _ _ _ | CElem i _ | CBits i _ _ _ _ _ _ _ | CSeq i _ _ _ _ _ _ | COpt i _ _ _ | CEm i => i end.
Definition is_move (f : cfield) : bool := match f with CMove _ _ _ _ => true | _ => false end.
(* the value-bearing fields of a class have pairwise distinct indices (describe numbers them 0, 1, 2, ..) *)
Definition distinct_fields (fs : list cfield) : Prop := NoDup (map cf_index (filter (fun f => negb (is_move f)) fs)).

Section I.
Variable rc : value -> option value.
(* what one field's init stores under its own name, in isolation *)
Definition own_init (f : cfield) (kw : slots) : option (option value) :=
  match f with
  | CMove _ _ _ _ | CEm _ => Some None
  | CElem i e => match slot_get kw (FN i) with
                 | Some v => Some (Some v)
                 | None => match elem_default rc e with Some d => Some (Some d) | None => None end
                 end
  | CBits i _ _ _ _ _ _ d | CSeq i _ _ _ _ d _ | COpt i _ _ d =>
      match slot_get kw (FN i) with
      | Some v => Some (Some v)
      | None => match rc d with Some x => Some (Some x) | None => None end
      end
  end.
(* every field ends up holding the keyword's value if named, else its declared default -- whatever the other
   fields and keywords are *)
Theorem init_fields_slot : forall fs kw s f,
  distinct_fields fs -> init_fields rc fs kw [] = Some s -> In f fs -> is_move f = false ->
  exists ov, own_init f kw = Some ov /\ slot_get s (FN (cf_index f)) = ov.
Admitted.
(* keyword arguments override exactly the fields they name *)
Theorem init_fields_kw_local : forall fs kw s s0 j,
  distinct_fields fs -> init_fields rc fs kw [] = Some s -> init_fields rc fs [] [] = Some s0 ->
  slot_get kw (FN j) = None -> slot_get s (FN j) = slot_get s0 (FN j).
Admitted.
End I.

(* ================= EqProofs.v (C20) ================= *)
(* values a parse or a constructor produces: integers, bytes, None, lists, packets of classes of the table *)
Fixpoint plain (fuel : nat) (ct : ctab) (v : value) {struct fuel} : bool :=
  match fuel with
  | O => false
  | S f =>
      match v with
      | VInt _ | VBool _ | VBytes _ | VNone => true
      | VList l => forallb (plain f ct) l
      | VPkt c s => match ct_get ct c with Some _ => forallb (fun p => plain f ct (snd p)) s | None => false end
      | _ => false
      end
  end.
Theorem pkt_neb_is_negb : forall fuel ct a b, pkt_neb fuel ct a b = negb (pkt_eqb fuel ct a b).
Admitted.
(* reflexive on plain values: in particular two parses of the same bytes compare equal *)
Theorem pkt_eqb_refl : forall fuel ct v, plain fuel ct v = true -> pkt_eqb fuel ct v v = true.
Admitted.
(* structural: equal exactly when same class and every listed attribute is unset on both sides or equal *)
Theorem pkt_eqb_structural : forall fuel ct c1 s1 c2 s2,
  pkt_eqb (S fuel) ct (VPkt c1 s1) (VPkt c2 s2) = true <->
  c1 = c2 /\ exists k, ct_get ct c1 = Some k /\
    forall f, In f (field_names k) ->
      match slot_get s1 f, slot_get s2 f with
      | None, None => True
      | Some x, Some y => pkt_eqb fuel ct x y = true
      | _, _ => False
      end.
Admitted.
Theorem pkt_eqb_other_class : forall fuel ct c1 s1 c2 s2, c1 <> c2 -> pkt_eqb fuel ct (VPkt c1 s1) (VPkt c2 s2) = false.
Admitted.
Theorem pkt_eqb_not_packet : forall fuel ct c s v, (forall c' s', v <> VPkt c' s') -> pkt_eqb (S fuel) ct (VPkt c s) v = false.
Admitted.
(* changing one listed field to a different value makes the packets unequal *)
Theorem pkt_eqb_field_changed : forall fuel ct c s1 s2 k f x y,
  ct_get ct c = Some k -> In f (field_names k) -> slot_get s1 f = Some x -> slot_get s2 f = Some y ->
  pkt_eqb fuel ct x y = false -> pkt_eqb (S fuel) ct (VPkt c s1) (VPkt c s2) = false.
Admitted.
(* __repr__ prints exactly the listed attributes that hold a value: it never touches an unset one *)
Theorem repr_names_set : forall ct v f, In f (repr_names ct v) -> exists c s x, v = VPkt c s /\ slot_get s f = Some x.
Admitted.
