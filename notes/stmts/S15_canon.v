(* Proofs/CanonProofs.v -- the comparison glue of the correspondence check (Model/Canon.v) is sound: the boolean comparators
   decide equality, and the list of indices `check_group` returns is exactly the list of cases on which the model's outcome
   differs from the outcome reported for the implementation.  (What vm_compute prints is therefore the disagreement set; an
   empty list means every case agreed.) *)
From Coq Require Import ZArith List Bool Lia.
From Bisturi Require Import Base.Bytes Model.Value Model.Decl Model.Unpack Model.Pack Model.Init Model.Codegen Model.Canon.
Import ListNotations.
Open Scope Z_scope.

Theorem bytes_eqb_eq : forall a b, bytes_eqb a b = true <-> a = b.
Admitted.
Theorem cval_eqb_eq : forall a b, cval_eqb a b = true <-> a = b.
Admitted.
Theorem stack_eqb_eq : forall a b, stack_eqb a b = true <-> a = b.
Admitted.

(* end offsets are compared only when both sides observed one *)
Fixpoint erase_end (o : outcome) : outcome :=
  match o with
  | OVal v _ => OVal v None
  | ORoundTrip v e p => ORoundTrip v e (erase_end p)
  | _ => o
  end.
Theorem outcome_eqb_sound : forall a b, outcome_eqb a b = true -> erase_end a = erase_end b.
Admitted.
Theorem outcome_eqb_ends : forall x y p q, outcome_eqb (OVal x (Some p)) (OVal y (Some q)) = true -> x = y /\ p = q.
Admitted.
Theorem outcome_eqb_other : forall a, outcome_eqb a OOther = false /\ outcome_eqb OOther a = false.
Admitted.
(* completeness on outcomes the model can produce: equal outcomes compare equal *)
Fixpoint no_other (o : outcome) : bool := match o with OOther => false | ORoundTrip _ _ p => no_other p | _ => true end.
Theorem outcome_eqb_refl : forall a, no_other a = true -> outcome_eqb a a = true.
Admitted.

(* the printed list = the indices of the disagreeing cases, in order *)
Theorem check_group_spec : forall host base tbl cs i,
  In i (check_group host base tbl cs) <->
  exists k x, nth_error cs k = Some x /\ i = base + Z.of_nat k /\ agrees host tbl (mk_ctab tbl) x = false.
Admitted.
Theorem check_group_nil : forall host base tbl cs,
  check_group host base tbl cs = [] <-> Forall (fun x => agrees host tbl (mk_ctab tbl) x = true) cs.
Admitted.
Theorem check_group_app : forall host base tbl cs1 cs2,
  check_group host base tbl (cs1 ++ cs2) = check_group host base tbl cs1 ++ check_group host (base + Z.of_nat (length cs1)) tbl cs2.
Admitted.

(* a case the implementation reports as "some other exception" / an undefined class placeholder never agrees *)
Theorem agrees_other : forall host tbl ct c raw off, agrees host tbl ct (CUnpack c raw off OOther) = false.
Admitted.
