From Coq Require Import ZArith List Bool Lia.
From Bisturi Require Import Base.Bytes Kernel.IntCodec Kernel.Align Kernel.BitsK Kernel.DataK Kernel.Frag
  Model.Value Model.Decl Model.Unpack Model.Pack Model.Init Model.Codegen Model.Wf Model.Wf2 Model.Wf3 Model.WfBits
  Proofs.FragProofs Proofs.RoundTrip Proofs.CodegenEquiv.
Import ListNotations. Open Scope Z_scope.

(* the round-trip side conditions of Model/Wf3.v, with bit runs allowed *)
Definition cfield_rtb (base : Z) (f : cfield) : bool :=
  match f with CBits _ _ _ _ _ _ _ _ => true | _ => cfield_rt base f end.
Definition ct_rtb (base : Z) (ct : ctab) : bool := forallb (fun ck => forallb (cfield_rtb base) (cc_fields (snd ck))) ct.

(* every table built by the metaclass has well-formed bit runs *)
Theorem describe_bits_ok : forall p k, describe p = Some k -> class_bits_ok k = true.
Admitted.

(* C01 for the whole declaration language, bit runs included (generic field loop) *)
Theorem roundtrip_bytes_bits : forall fuel host dl ct raw c off s e t,
  wf_bytes raw -> ct_distinct ct = true -> ct_rtb off ct = true -> ct_bits_ok ct = true -> 0 <= off ->
  unpack_pkt fuel host ct raw c off = POk (VPkt c s) e t -> trace_from off t -> trace_in raw t ->
  match fold_a aempty (chunk_ops off t) with
  | Some a => exists v', pack_top fuel host dl ct c s = PBytes (a_tobytes a) v'
  | None => exists st, pack_top fuel host dl ct c s = PErr st
  end.
Admitted.

(* and for the code a class really runs: generated or generic, whatever the options *)
Theorem roundtrip_bytes_any : forall fuel host dl ct raw c off s e t,
  wf_bytes raw -> ct_distinct ct = true -> ct_rtb off ct = true -> ct_bits_ok ct = true ->
  ct_wf ct = true -> ct_sizes_ok ct = true -> 0 <= off ->
  unpack_any fuel host ct raw c off = POk (VPkt c s) e t -> trace_from off t -> trace_in raw t ->
  match fold_a aempty (chunk_ops off t) with
  | Some a => exists v', pack_any_top fuel host dl ct c s = PBytes (a_tobytes a) v'
  | None => exists st, pack_any_top fuel host dl ct c s = PErr st
  end.
Admitted.
