(* Statements for Proofs/RegexBits.v: the regexp pre-filter is sound for flat declarations WITH bit runs. *)
From Coq Require Import ZArith List Bool Lia.
From Bisturi Require Import Base.Bytes Kernel.IntCodec Kernel.BitsK Kernel.DataK Kernel.Regex Model.Value Model.Decl Model.Unpack
                            Model.Pattern Model.WfBits Proofs.RoundTrip Proofs.RegexProofs.
Import ListNotations. Open Scope Z_scope.

Definition flat_field (f : cfield) : bool :=
  match f with CElem _ (ELeafE l) => flat_leaf l | CBits _ _ _ _ _ _ _ _ => true | _ => false end.

(* one byte of a run: the class of an 8-bit chunk of fixed / free bits matches every byte that agrees with the fixed bits
   (already proved: RegexProofs.byte_class_sound).  The glue: *)
Theorem regex_sound : forall fuel host ct c k raw s e t ps rs,
  ct_get ct c = Some k -> forallb flat_field (cc_fields k) = true -> class_bits_ok k = true ->
  nodupb (fidxs (cc_fields k)) = true ->
  NoDup (map fst ps) -> wf_bytes raw ->
  unpack_pkt fuel host ct raw c 0 = POk (VPkt c s) e t ->
  pattern_is (cc_fields k) ps s ->
  regex_of host k ps = Some rs ->
  prefix_match rs raw.
Admitted.
