From Coq Require Import ZArith List Bool Lia.
From Bisturi Require Import Base.Bytes Kernel.IntCodec Kernel.Align Kernel.BitsK Kernel.DataK Kernel.Frag
  Model.Value Model.Decl Model.Unpack Model.Pack Model.Codegen Model.World.
Import ListNotations. Open Scope Z_scope.

Definition slots_keep (s : slots) : Prop := forallb (fun p => value_keeps (snd p)) s = true.

(* parsing never writes class-level state when every regex delimiter is kept in the value ... *)
Theorem unpack_writes_no_shared_state : forall fuel host ct raw c off v e t,
  ct_keeps ct = true ->
  unpack_any fuel host ct raw c off = POk v e t -> no_delim t.
Admitted.
(* ... and serializing never reads it: the outcome is the same whatever other packets' parses left there *)
Theorem pack_reads_no_shared_state : forall fuel host dl dl' ct c s fr,
  ct_keeps ct = true -> slots_keep s ->
  pack_any fuel host dl ct c s fr = pack_any fuel host dl' ct c s fr.
Admitted.
(* serializing leaves every declared field of the packet as it was (only scratch slots are written) *)
Theorem pack_preserves_fields : forall fuel host dl ct c s fr v fr',
  pack_any fuel host dl ct c s fr = QOk v fr' ->
  exists s', v = VPkt c s' /\ forall i, slot_get s' (FN i) = slot_get s (FN i).
Admitted.
(* and serializing again returns the same bytes (declarations without bit runs; for bit runs see C07_pack_stale_irrelevant) *)
Theorem pack_twice_same_bytes : forall fuel host dl ct c s b s',
  ct_no_bits ct = true ->
  pack_any_top fuel host dl ct c s = PBytes b (VPkt c s') ->
  exists s'', pack_any_top fuel host dl ct c s' = PBytes b (VPkt c s'').
Admitted.
