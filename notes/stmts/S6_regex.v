From Coq Require Import ZArith List Bool Lia.
From Bisturi Require Import Base.Bytes Kernel.IntCodec Kernel.BitsK Kernel.DataK Kernel.Regex
  Model.Value Model.Decl Model.Unpack Model.Pattern Proofs.RoundTrip.
Import ListNotations. Open Scope Z_scope.

(* flat declarations over Int and Data (the property excludes a regex delimiter that is not kept in the value) *)
Definition flat_leaf (l : leaf) : bool :=
  match l with
  | LInt n _ _ _ => 1 <=? n
  | LDataRegex _ incl _ => incl
  | _ => true
  end.
Definition flat_field_nobits (f : cfield) : bool := match f with CElem _ (ELeafE l) => flat_leaf l | _ => false end.

(* one byte class is sound: every byte that agrees with the fixed bits is matched *)
Theorem byte_class_sound : forall l x rest, length l = 8%nat -> 0 <= x < 256 -> byte_matches l x = true ->
  matches (byte_class l) [x] rest.
Admitted.

(* the parsed packet equals the pattern, literally: every fixed field of the pattern IS the parsed value *)
Definition pattern_is (fs : list cfield) (ps : pslots) (s : slots) : Prop :=
  forall f, In f fs -> match f with
                       | CElem i _ | CBits i _ _ _ _ _ _ _ =>
                           exists p v, pslot_get ps (FN i) = Some p /\ slot_get s (FN i) = Some v /\
                                       match p with PAny => True | PLit x => x = v end
                       | _ => False
                       end.

(* soundness of the pre-filter for flat declarations without bit runs: if raw parses (at offset 0, generic loop) to a
   packet equal to the pattern, the derived regular expression matches a prefix of raw *)
Theorem regex_sound_nobits : forall fuel host ct c k raw s e t ps rs,
  ct_get ct c = Some k -> forallb flat_field_nobits (cc_fields k) = true -> nodupb (fidxs (cc_fields k)) = true ->
  NoDup (map fst ps) -> wf_bytes raw ->
  unpack_pkt fuel host ct raw c 0 = POk (VPkt c s) e t ->
  pattern_is (cc_fields k) ps s ->
  regex_of host k ps = Some rs ->
  prefix_match rs raw.
Admitted.

(* building never fails for in-range literals: every leaf with a well-typed pattern value yields a regexp *)
Theorem leaf_regex_total_any : forall host cf name l ps, pslot_get ps name = Some PAny ->
  exists rs, leaf_regex host cf name l ps = Some rs.
Admitted.
