From Coq Require Import ZArith List Bool Lia.
From Bisturi Require Import Base.Bytes Kernel.IntCodec Kernel.Align Kernel.BitsK Kernel.DataK Kernel.Frag
  Model.Value Model.Decl Model.Unpack Model.Pack Model.Init Model.Canon Model.Wf Model.Consistent Proofs.FragProofs Proofs.RoundTrip.
Import ListNotations. Open Scope Z_scope.

(* the value restricted to the attributes the class declares: what unpack returns is compared on these *)
Definition visible (ct : ctab) (v : value) : cval := canon ct v.

(* C02 for the sequential sublanguage: a value that satisfies its declaration serializes (generic loop) to a string that
   parses back to the same packet, consuming the whole string; appended bytes do not matter *)
Theorem pack_unpack_sequential : forall fuel host dl ct c s rest,
  ct_distinct ct = true -> consistent fuel ct c s = true -> wf_bytes rest ->
  exists out v', pack_top fuel host dl ct c s = PBytes out v' /\ wf_bytes out /\
    exists s' t, unpack_pkt fuel host ct (out ++ rest) c 0 = POk (VPkt c s') (blen out) t /\
                 visible ct (VPkt c s') = visible ct (VPkt c s).
Admitted.
