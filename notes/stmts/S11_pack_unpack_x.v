(* Statements for Proofs/PackUnpackX.v: C02 for the larger language of Model/ConsistentX.v *)
From Coq Require Import ZArith List Bool Lia.
From Bisturi Require Import Base.Bytes Kernel.IntCodec Kernel.Align Kernel.BitsK Kernel.DataK Kernel.Frag
  Model.Value Model.Decl Model.Unpack Model.Pack Model.Init Model.Canon Model.Wf Model.WfBits Model.Consistent Model.ConsistentX
  Proofs.RoundTrip Proofs.PackUnpack.
Import ListNotations. Open Scope Z_scope.

(* ---- sanity example: every construct of the language ---- *)
Definition px_fd (mv : option (marg * reference * bool)) (b : sfield) : fdecl := {| fd_move := mv; fd_body := b |}.
Definition px_u8 : elem := ELeafE (LInt 1 false None VNone).
Definition px_pc0 : pclass :=
  {| pc_endianness := None; pc_align := None; pc_sbl := None; pc_gen_pack := false; pc_gen_unpack := false; pc_vectorize := true;
     pc_fields := [ px_fd None (SElem px_u8);                                             (* f0: selector / length *)
                    px_fd None (SBits 3 VNone); px_fd None (SBits 5 VNone);                (* f1 f2: a run of 8 bits *)
                    px_fd (Some (MConst 4, RInner, true)) (SElem (ELeafE (LInt 2 false None VNone)));   (* f3 aligned to 4 *)
                    px_fd None (SSeq (ERefPkt 1 []) None (Some (EBin Ge (EUn Len (EField (FN 4))) (EField (FN 0)))) None None (Some 2));
                                                                                          (* f4: until len(f4) >= f0, elements aligned to 2 *)
                    px_fd None SEm;                                                       (* f5 *)
                    px_fd (Some (MConst 1, RCur, false)) (SElem (ERefSel (EChoose (EField (FN 1)) [ELit (VLeaf (LInt 1 false None VNone)); ELit (VLeaf (LInt 2 false None VNone)); ELit (VNew 1 [])]) VNone));
                                                                                          (* f6: shift(1); selected by f1 *)
                    px_fd None (SSeq px_u8 (Some (EField (FN 2))) None None None (Some 3)) (* f7: f2 bytes, each aligned to 3 *)
                  ] |}.
Definition px_pc1 : pclass :=
  {| pc_endianness := None; pc_align := None; pc_sbl := None; pc_gen_pack := false; pc_gen_unpack := false; pc_vectorize := true;
     pc_fields := [ px_fd None (SElem px_u8); px_fd None (SElem (ELeafE (LDataMarker [0] false VNone))) ] |}.
Definition px_ct : ctab :=
  match describe px_pc0, describe px_pc1 with Some k0, Some k1 => [(0, k0); (1, k1)] | _, _ => [] end.
Definition px_inner (a : Z) (b : bytes) : value := VPkt 1 [(FN 0, VInt a); (FN 1, VBytes b)].
Definition px_s : slots :=
  [(FN 0, VInt 2); (FBitsI 1, VInt 0); (FN 1, VInt 2); (FN 2, VInt 2); (FN 3, VInt 513);
   (FN 4, VList [px_inner 1 [65]; px_inner 2 []]); (FN 6, px_inner 9 [66]); (FN 7, VList [VInt 7; VInt 8])].
Eval vm_compute in (px_ct).
Eval vm_compute in (ct_distinct px_ct, ct_plain px_ct, ct_bits_ok px_ct, consistentx 3 px_ct 0 px_s).
Eval vm_compute in (pack_top 3 true (fun _ _ => []) px_ct 0 px_s).
Eval vm_compute in (match pack_top 3 true (fun _ _ => []) px_ct 0 px_s with
                    | PBytes out _ => match unpack_pkt 3 true px_ct (out ++ [9; 9]) 0 0 with
                                      | POk v e _ => Some (e, blen out, canon px_ct v, canon px_ct (VPkt 0 px_s))
                                      | _ => None end
                    | _ => None end).

(* ---- the theorem ---- *)
Theorem pack_unpack_x : forall fuel host dl ct c s rest,
  ct_distinct ct = true -> ct_bits_ok ct = true -> consistentx fuel ct c s = true -> wf_bytes rest ->
  exists out v', pack_top fuel host dl ct c s = PBytes out v' /\ wf_bytes out /\
    exists s' e t, unpack_pkt fuel host ct (out ++ rest) c 0 = POk (VPkt c s') e t /\ blen out <= e /\
                   (ct_nomoves ct = true -> e = blen out) /\
                   visible ct (VPkt c s') = visible ct (VPkt c s).
Admitted.
