(* Proofs/FragContinue.v -- C11 for a caller that CATCHES the collision and goes on using the buffer: a rejected operation
   leaves the buffer as it was.  In the model an operation that does not return `Ok` hands back no state at all, so "going on"
   means going on from the state before it; the abstract sparse array does the same.  The refinement of Proofs/FragProofs.v
   carries over: after every such history the buffer still represents the array, the same operations were rejected, and
   the final string is the array's. *)
From Coq Require Import ZArith List Bool Lia.
From Bisturi Require Import Base.Bytes Kernel.Frag Proofs.FragProofs.
Import ListNotations.
Open Scope Z_scope.

(* run a history, skipping (and recording the index of) every operation that raises *)
Fixpoint run_ops_c (s : frs) (ops : list op) (k : Z) : frs * list Z :=
  match ops with
  | [] => (s, [])
  | o :: r =>
      match apply_op s o with
      | Ok s' => run_ops_c s' r (k + 1)
      | _ => let '(s'', bad) := run_ops_c s r (k + 1) in (s'', k :: bad)
      end
  end.
Fixpoint fold_a_c (a : afrs) (ops : list op) (k : Z) : afrs * list Z :=
  match ops with
  | [] => (a, [])
  | o :: r =>
      match a_apply a o with
      | Some a' => fold_a_c a' r (k + 1)
      | None => let '(a'', bad) := fold_a_c a r (k + 1) in (a'', k :: bad)
      end
  end.

(* single operations refine (restating what history_refines gives for one-element histories) *)
Theorem apply_op_refines : forall s a o, R s a -> op_nonneg o ->
  match apply_op s o with
  | Ok s' => exists a', a_apply a o = Some a' /\ R s' a'
  | Collision => a_apply a o = None
  | Crash => False
  end.
Admitted.

(* every history in which the caller goes on after collisions: same rejected operations, related final states *)
Theorem history_continue_refines : forall ops s a k, R s a -> Forall op_nonneg ops ->
  R (fst (run_ops_c s ops k)) (fst (fold_a_c a ops k)) /\ snd (run_ops_c s ops k) = snd (fold_a_c a ops k).
Admitted.
Theorem history_continue_bytes : forall ops k, Forall op_nonneg ops ->
  tobytes (fst (run_ops_c empty ops k)) = a_tobytes (fst (fold_a_c aempty ops k)).
Admitted.
(* a rejected operation changes nothing: the run with it equals the run without it *)
Theorem rejected_is_noop : forall s o r k, (forall s', apply_op s o <> Ok s') ->
  fst (run_ops_c s (o :: r) k) = fst (run_ops_c s r (k + 1)).
Admitted.

Example continue_example :
  run_ops_c empty [OInsert 0 [1; 2]; OInsert 1 [9; 9]; OAppend [3]; OInsert 0 [7]; OAppend [4]] 0 =
    ({| frags := [(0, [1; 2]); (2, [3]); (3, [4])]; begins := [0; 2; 3]; cur := 4 |}, [1; 3]) /\
  tobytes (fst (run_ops_c empty [OInsert 0 [1; 2]; OInsert 1 [9; 9]; OAppend [3]; OInsert 0 [7]; OAppend [4]] 0)) = [1; 2; 3; 4].
Admitted.
