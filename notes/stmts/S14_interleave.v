(* Proofs/Interleave.v -- operations of several threads on DISTINCT packets (C13, "this holds when packets of one class are
   parsed or serialized from several threads").  Granularity: one user operation (construct / parse / re-parse / assign /
   append / pack) is one step; a schedule is any merge of the threads' operation lists.  In the tree world of
   Model/HeapSpec.v every thread observes, under every schedule, exactly what it observes running alone: the same raises, the
   same pack() outputs, the same final packets; through Proofs/HeapAdequacy.v the same holds of the object world. *)
From Coq Require Import ZArith List Bool Lia.
From Bisturi Require Import Base.Bytes Model.Value Model.Decl Model.Unpack Model.Pack Model.Init Model.Codegen Model.Canon Model.Heap Model.HeapSpec
  Proofs.HeapProofs Proofs.HeapAdequacy.
Import ListNotations.
Open Scope Z_scope.

Definition fw_equiv (a b : fworld) : Prop := forall r, fw_get a r = fw_get b r.

(* the names an operation binds / updates and the names it reads *)
Definition wname (o : wop) : Z :=
  match o with WNew r _ | WParse r _ _ _ | WReparse r _ | WSet r _ _ _ | WAppend r _ _ | WPack r => r end.
Definition wreads (o : wop) : list Z :=
  match o with
  | WReparse _ r0 => [r0]
  | WSet _ _ _ (SrcObj r' _) | WAppend _ _ (SrcObj r' _) => [r']
  | _ => []
  end.
Definition touches (o : wop) : list Z := wname o :: wreads o.
Definition names (ops : list wop) : list Z := flat_map touches ops.

(* what the caller of one operation sees: None = it raised; Some (Some b) = pack() returned b; Some None = it returned *)
Definition f_out (host : bool) (ct : ctab) (fw : fworld) (o : wop) : option (option bytes) :=
  match f_step host ct fw o with
  | None => None
  | Some _ =>
      Some (match o with
            | WPack r =>
                match fw_get fw r with
                | Some (VPkt c s) => match pack_any_top FUEL host no_delims ct c s with PBytes b _ => Some b | _ => None end
                | _ => None
                end
            | _ => None
            end)
  end.
Fixpoint f_outs (host : bool) (ct : ctab) (fw : fworld) (ops : list wop) : list (option (option bytes)) :=
  match ops with
  | [] => []
  | o :: r => f_out host ct fw o :: f_outs host ct (f_run1 host ct fw o) r
  end.

(* a schedule: operations tagged with the thread that issues them *)
Definition sched := list (nat * wop).
Definition proj (t : nat) (I : sched) : list wop := map snd (filter (fun x => Nat.eqb (fst x) t) I).
Fixpoint s_outs (host : bool) (ct : ctab) (fw : fworld) (I : sched) : list (nat * option (option bytes)) :=
  match I with
  | [] => []
  | (t, o) :: r => (t, f_out host ct fw o) :: s_outs host ct (f_run1 host ct fw o) r
  end.
Definition outs_of (t : nat) (l : list (nat * option (option bytes))) : list (option (option bytes)) :=
  map snd (filter (fun x => Nat.eqb (fst x) t) l).

(* threads work on distinct packets: no name touched by two different threads *)
Definition distinct_packets (I : sched) : Prop :=
  forall t1 o1 t2 o2 x, In (t1, o1) I -> In (t2, o2) I -> t1 <> t2 -> In x (touches o1) -> In x (touches o2) -> False.

(* 1. the tree world only matters through fw_get *)
Theorem f_step_equiv : forall host ct a b o, fw_equiv a b ->
  match f_step host ct a o, f_step host ct b o with
  | Some a', Some b' => fw_equiv a' b'
  | None, None => True
  | _, _ => False
  end.
Admitted.
Theorem f_out_equiv : forall host ct a b o, fw_equiv a b -> f_out host ct a o = f_out host ct b o.
Admitted.

(* 2. an operation changes the binding of its own name only, and looks at the names it touches only *)
Theorem f_step_frame : forall host ct fw o fw' q, f_step host ct fw o = Some fw' -> q <> wname o -> fw_get fw' q = fw_get fw q.
Admitted.
Theorem f_out_local : forall host ct a b o, (forall x, In x (touches o) -> fw_get a x = fw_get b x) -> f_out host ct a o = f_out host ct b o.
Admitted.
Theorem f_step_local : forall host ct a b o, (forall x, In x (touches o) -> fw_get a x = fw_get b x) ->
  fw_get (f_run1 host ct a o) (wname o) = fw_get (f_run1 host ct b o) (wname o).
Admitted.

(* 3. operations on distinct packets commute *)
Theorem f_run1_commute : forall host ct fw o1 o2,
  (forall x, In x (touches o1) -> In x (touches o2) -> False) ->
  fw_equiv (f_run1 host ct (f_run1 host ct fw o1) o2) (f_run1 host ct (f_run1 host ct fw o2) o1) /\
  f_out host ct (f_run1 host ct fw o2) o1 = f_out host ct fw o1 /\
  f_out host ct (f_run1 host ct fw o1) o2 = f_out host ct fw o2.
Admitted.

(* 4. every schedule: each thread sees what it sees running alone, and its packets end as they end when it runs alone *)
Theorem thread_isolation_outs : forall host ct (I : sched) fw t, distinct_packets I ->
  outs_of t (s_outs host ct fw I) = f_outs host ct fw (proj t I).
Admitted.
Theorem thread_isolation_final : forall host ct (I : sched) fw t r, distinct_packets I -> In r (names (proj t I)) ->
  fw_get (fold_left (f_run1 host ct) (map snd I) fw) r = fw_get (fold_left (f_run1 host ct) (proj t I) fw) r.
Admitted.
(* names no thread touches are left alone *)
Theorem schedule_frame : forall host ct (I : sched) fw r, ~ In r (map wname (map snd I)) ->
  fw_get (fold_left (f_run1 host ct) (map snd I) fw) r = fw_get fw r.
Admitted.
(* two schedules of the same threads end in the same world *)
Theorem schedules_agree : forall host ct (I J : sched) fw, distinct_packets I ->
  (forall t, proj t I = proj t J) -> (forall t o, In (t, o) J -> In (t, o) I) ->
  fw_equiv (fold_left (f_run1 host ct) (map snd I) fw) (fold_left (f_run1 host ct) (map snd J) fw).
Admitted.

(* 5. the object world (Model/Heap.v), through adequacy: under every schedule without user sharing, each live packet of thread t
   reads as the tree it reads as when t runs alone *)
Theorem heap_thread_isolation : forall host ct (I : sched) t r a,
  distinct_packets I -> forallb op_no_share (map snd I) = true -> In r (names (proj t I)) ->
  let wI := fold_left (w_run1 host ct) (map snd I) w_empty in
  let wt := fold_left (w_run1 host ct) (proj t I) w_empty in
  root_get (roots wI) r = Some a ->
  exists a' tr, root_get (roots wt) r = Some a' /\ den (hp wI) (HRef a) tr /\ den (hp wt) (HRef a') tr.
Admitted.

(* non-vacuity: two threads, each building, changing and packing its own packet of the same class *)
Definition il_ct : ctab :=
  [(0, {| cc_conf := empty_conf; cc_gen_pack := false; cc_gen_unpack := false; cc_vectorize := true;
          cc_fields := [CElem 0 (ELeafE (LInt 1 false None (VInt 0))); CElem 1 (ELeafE (LInt 1 false None (VInt 0)))] |})].
Definition il_sched : sched :=
  [(0%nat, WParse 1 0 [7; 8] 0); (1%nat, WParse 2 0 [1; 2] 0); (1%nat, WSet 2 [] (SField (FN 0)) (SrcLit (VInt 9)));
   (0%nat, WPack 1); (1%nat, WPack 2); (0%nat, WSet 1 [] (SField (FN 1)) (SrcLit (VInt 3))); (0%nat, WPack 1)].
Example il_outs : s_outs false il_ct [] il_sched =
  [(0%nat, Some None); (1%nat, Some None); (1%nat, Some None); (0%nat, Some (Some [7; 8])); (1%nat, Some (Some [9; 2]));
   (0%nat, Some None); (0%nat, Some (Some [7; 3]))].
Admitted.
