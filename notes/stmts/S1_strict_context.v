From Coq Require Import ZArith List Bool Lia.
From Bisturi Require Import Base.Bytes Kernel.IntCodec Kernel.Align Kernel.BitsK Kernel.DataK Kernel.Frag
  Model.Value Model.Decl Model.Unpack Model.Pack Model.Init Model.Codegen Model.Wf.
Import ListNotations. Open Scope Z_scope.

(* ---------- StrictProofs.v ---------- *)
Definition chunk_ok (raw : bytes) (x : titem) : Prop :=
  match x with
  | TChunk p b => 0 <= p /\ b = slice raw p (p + blen b) /\ (b <> [] -> p + blen b <= blen raw)
  | TDelim _ _ _ => True
  | TMove p => 0 <= p
  end.

Theorem unpack_leaf_strict : forall host raw cf c name l s off v o' t,
  0 <= off -> unpack_leaf host raw cf c name l s off = Ok (v, o', t) ->
  0 <= o' /\ Forall (chunk_ok raw) t /\
  exists b, In (TChunk off b) t /\ b = slice raw off (off + blen b) /\
    match l with
    | LInt n signed fe _ => 1 <= n -> blen b = n /\ o' = off + n /\ off + n <= blen raw /\
        exists x, v = VInt x /\ decode n signed (is_bigendian (resolve_endianness fe (lc_endianness cf)) host) b = Some x
    | LDataSized size _ _ => exists bc, eval_int (mkctx raw s off) size = Ok bc /\ 0 <= bc /\ blen b = bc /\ o' = off + bc /\ v = VBytes b
    | LDataMarker m incl _ => exists val, v = VBytes val /\ b = (if incl then val else val ++ m) /\ o' = off + blen b
    | LDataRegex _ _ _ => o' = off + blen b
    | LDataEos _ => v = VBytes b
    end.
Admitted.

Theorem unpack_any_strict : forall fuel host ct raw c off v e t,
  ct_wf ct = true -> 0 <= off ->
  unpack_any fuel host ct raw c off = POk v e t -> 0 <= e /\ Forall (chunk_ok raw) t.
Admitted.
Theorem unpack_pkt_strict : forall fuel host ct raw c off v e t,
  ct_wf ct = true -> 0 <= off ->
  unpack_pkt fuel host ct raw c off = POk v e t -> 0 <= e /\ Forall (chunk_ok raw) t.
Admitted.
(* cutting the input: whatever still parses consumed only bytes that are there *)
Theorem unpack_any_truncation : forall fuel host ct raw c off cut v e t,
  ct_wf ct = true -> 0 <= off -> 0 <= cut ->
  unpack_any fuel host ct (firstn (Z.to_nat cut) raw) c off = POk v e t ->
  Forall (fun x => match x with TChunk p b => b <> [] -> p + blen b <= cut | _ => True end) t.
Admitted.

(* ---------- ContextProofs.v ---------- *)
Definition shift_item (d : Z) (x : titem) : titem := match x with TChunk p b => TChunk (p + d) b | TMove p => TMove (p + d) | TDelim c f b => TDelim c f b end.
Definition shift_stack (d : Z) (st : stack) : stack := map (fun '(o, f, c) => (o + d, f, c)) st.
Definition shift_pres (d : Z) (r : pres) : pres :=
  match r with
  | POk v e t => POk v (e + d) (map (shift_item d) t)
  | PFail st => PFail (shift_stack d st)
  | PFuel => PFuel
  end.
Theorem unpack_any_prefix : forall fuel host ct pre raw c off,
  ct_wf ct = true -> ct_local ct = true -> 0 <= off ->
  unpack_any fuel host ct (pre ++ raw) c (blen pre + off) = shift_pres (blen pre) (unpack_any fuel host ct raw c off).
Admitted.
Theorem unpack_pkt_prefix : forall fuel host ct pre raw c off,
  ct_wf ct = true -> ct_local ct = true -> 0 <= off ->
  unpack_pkt fuel host ct (pre ++ raw) c (blen pre + off) = shift_pres (blen pre) (unpack_pkt fuel host ct raw c off).
Admitted.
Theorem unpack_any_prefix_ok : forall fuel host ct pre raw c off v e t,
  ct_wf ct = true -> ct_local_weak ct = true -> 0 <= off ->
  unpack_any fuel host ct raw c off = POk v e t ->
  unpack_any fuel host ct (pre ++ raw) c (blen pre + off) = POk v (e + blen pre) (map (shift_item (blen pre)) t).
Admitted.
Theorem unpack_any_suffix : forall fuel host ct raw post c off v e t,
  ct_wf ct = true -> ct_closed ct = true -> 0 <= off ->
  unpack_any fuel host ct raw c off = POk v e t ->
  unpack_any fuel host ct (raw ++ post) c off = POk v e t.
Admitted.
